//! Dispatch: property id -> check, replay of saved cases, child kinds.

use crate::fw::{Report, Stage};
use crate::props;
use serde_json::Value as J;

pub fn run(rep: &Report) -> bool {
    match rep.prop.as_str() {
        "C01" => props::c01::run(rep),
        "C02" => props::c02::run(rep),
        "C03" => props::c03::run(rep),
        "C04" => props::c04::run(rep),
        "C05" => props::c05::run(rep),
        "C06" => props::c06::run(rep),
        "C07" => props::c07::run(rep),
        "C08" => props::c08::run(rep),
        "C09" => props::c09::run(rep),
        "C10" => props::c10::run(rep),
        "C11" => props::c11::run(rep),
        "C12" => props::c12::run(rep),
        "C13" => props::c13::run(rep),
        "C14" => props::c14::run(rep),
        "C15" => props::c15::run(rep),
        "C16" => props::c16::run(rep),
        "C17" => props::c17::run(rep),
        "C18" => props::c18::run(rep),
        "C19" => props::c19::run(rep),
        "C20" => props::c20::run(rep),
        _ => return false,
    }
    true
}

/// Replay one saved input through a stage. Known findings are NOT suppressed when
/// replaying (Report.strict is set by `replay`).
pub fn replay_stage<S: Stage>(rep: &Report, stage: &S, j: &J) -> i32 {
    match serde_json::from_value::<S::Input>(j["input"].clone()) {
        Ok(inp) => {
            let v = rep.run_one(stage, &inp);
            if v.is_some() {
                1
            } else {
                println!("replay: no violation");
                0
            }
        }
        Err(e) => {
            eprintln!("cannot decode replay input: {e}");
            2
        }
    }
}

pub fn replay(rep: &Report, path: &str) -> i32 {
    unsafe { std::env::set_var("VERIF_NO_EVIDENCE", "1") };
    let Ok(s) = std::fs::read_to_string(path) else {
        eprintln!("cannot read {path}");
        return 2;
    };
    let Ok(j) = serde_json::from_str::<J>(&s) else {
        eprintln!("cannot parse {path}");
        return 2;
    };
    let stage = j["stage"].as_str().unwrap_or("").to_string();
    match rep.prop.as_str() {
        "C01" => props::c01::replay(rep, &stage, &j),
        "C02" => props::c02::replay(rep, &stage, &j),
        "C03" => props::c03::replay(rep, &stage, &j),
        "C04" => props::c04::replay(rep, &stage, &j),
        "C05" => props::c05::replay(rep, &stage, &j),
        "C06" => props::c06::replay(rep, &stage, &j),
        "C07" => props::c07::replay(rep, &stage, &j),
        "C08" => props::c08::replay(rep, &stage, &j),
        "C09" => props::c09::replay(rep, &stage, &j),
        "C10" => props::c10::replay(rep, &stage, &j),
        "C11" => props::c11::replay(rep, &stage, &j),
        "C12" => props::c12::replay(rep, &stage, &j),
        "C13" => props::c13::replay(rep, &stage, &j),
        "C14" => props::c14::replay(rep, &stage, &j),
        "C15" => props::c15::replay(rep, &stage, &j),
        "C16" => props::c16::replay(rep, &stage, &j),
        "C17" => props::c17::replay(rep, &stage, &j),
        "C18" => props::c18::replay(rep, &stage, &j),
        "C19" => props::c19::replay(rep, &stage, &j),
        "C20" => props::c20::replay(rep, &stage, &j),
        _ => {
            eprintln!("no replay handler for {}/{}", rep.prop, stage);
            2
        }
    }
}

/// `vcheck --child <kind>`: kinds are "<property>-<what>", handled by the property's module.
pub fn child_dispatch(kind: &str, payload: &J) -> Option<J> {
    if kind == "run-prog" {
        return crate::runner::child_run_prog(payload);
    }
    let prop = kind.split('-').next().unwrap_or("");
    match prop {
        "c05" => props::c05::child(kind, payload),
        "c08" => props::c08::child(kind, payload),
        "c09" => props::c09::child(kind, payload),
        "c16" => props::c16::child(kind, payload),
        "c17" => props::c17::child(kind, payload),
        "c19" => props::c19::child(kind, payload),
        _ => None,
    }
}

// ---------------------------------------------------------------------------
// coverage-guided fuzzing entry (harness/fuzz): same decoders, same oracles
// ---------------------------------------------------------------------------

fn fuzz_stage<S: Stage>(rep: &Report, stage: &S, data: &[u8]) {
    let inp = stage.decode(&mut crate::choice::Src::new(data));
    let out = match crate::fw::catch(|| stage.check(&inp)) {
        Ok(o) => o,
        Err(p) => {
            eprintln!("VIOLATION (fuzz) property={} stage={} panic while checking: {p}", rep.prop, stage.name());
            std::process::abort();
        }
    };
    let mut all = out.soft;
    if let Some(v) = out.fail {
        all.push(v);
    }
    for v in all {
        if rep.is_known(&v.sig).is_none() {
            eprintln!("VIOLATION (fuzz) property={} stage={} signature={}\n{}\ninput: {}", rep.prop, stage.name(), v.sig, v.detail, stage.render(&inp));
            std::process::abort();
        }
    }
}

/// `VERIF_FUZZ_STAGE=C16/table-ops cargo +nightly fuzz run stage` — decode the bytes with the stage's
/// choice-stream decoder and run its oracle; abort on a violation that is not a known finding.
pub fn fuzz_one(data: &[u8]) {
    use std::sync::OnceLock;
    static WHICH: OnceLock<(String, String, Report)> = OnceLock::new();
    let (prop, stage, rep) = WHICH.get_or_init(|| {
        crate::fw::install_quiet_panic_hook();
        let s = std::env::var("VERIF_FUZZ_STAGE").unwrap_or_else(|_| "C16/table-ops".into());
        let (p, st) = s.split_once('/').unwrap_or((s.as_str(), ""));
        (p.to_string(), st.to_string(), Report::new(p, crate::fw::Tier::Thorough, 0))
    });
    use crate::pgen::GenCfg;
    use props::lockstep::{Lockstep, Mode};
    match (prop.as_str(), stage.as_str()) {
        ("C01", _) => fuzz_stage(rep, &Lockstep { name: "lockstep", mode: Mode::C01, cfg: GenCfg::default(), pairs_per_prefix: 3, naive_engine: false }, data),
        ("C02", _) => fuzz_stage(rep, &props::c02::C02, data),
        ("C03", _) => fuzz_stage(rep, &props::c03::C03 { cfg: props::c03::cfg(), name: "seminaive-vs-naive", with_model: true }, data),
        ("C04", "invariants-faults") => fuzz_stage(rep, &props::c04::C04 { cfg: props::c04::cfg_faults(), name: "invariants-faults" }, data),
        ("C04", _) => fuzz_stage(rep, &props::c04::C04 { cfg: props::c04::cfg_plain(), name: "invariants" }, data),
        ("C07", _) => fuzz_stage(rep, &props::c07::C07 { cfg: props::c07::cfg(), name: "extraction" }, data),
        ("C10", _) => fuzz_stage(rep, &props::c10::C10 { cfg: props::c10::cfg() }, data),
        ("C11", _) => fuzz_stage(rep, &props::c11::C11 { cfg: props::c11::cfg(), name: "encodings" }, data),
        ("C12", _) => fuzz_stage(rep, &props::c12::C12, data),
        ("C14", _) => fuzz_stage(rep, &Lockstep { name: "container-lockstep", mode: Mode::C14, cfg: props::c14::cfg(), pairs_per_prefix: 2, naive_engine: false }, data),
        ("C16", "table-churn") => fuzz_stage(rep, &props::c16::TableOps { name: "table-churn", profile: props::c16::Profile::Churn }, data),
        ("C16", _) => fuzz_stage(rep, &props::c16::TableOps { name: "table-ops", profile: props::c16::Profile::General }, data),
        ("C17", _) => fuzz_stage(rep, &props::c17::SeqStage { name: "seq-random" }, data),
        _ => {
            eprintln!("unknown VERIF_FUZZ_STAGE {prop}/{stage}");
            std::process::abort();
        }
    }
}
