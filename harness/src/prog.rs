//! Harness-side AST of egglog programs (typed), printer to egglog text.
//! The generator lives in `gen.rs`, the reference interpreter in `refegg.rs`.

use serde::{Deserialize, Serialize};

#[derive(Clone, Debug, Serialize, Deserialize, PartialEq, Eq, Hash, PartialOrd, Ord)]
pub enum Ty {
    /// user eq-sort, index into Sig.sorts
    Eq(usize),
    I64,
    Bool,
    /// container sort, index into Sig.conts
    Cont(usize),
}

#[derive(Clone, Copy, Debug, Serialize, Deserialize, PartialEq, Eq, Hash, PartialOrd, Ord)]
pub enum ContKind {
    Vec,
    Set,
    MultiSet,
}

#[derive(Clone, Debug, Serialize, Deserialize, PartialEq, Eq)]
pub struct ContDecl {
    pub name: String,
    pub kind: ContKind,
    pub elem: Ty,
}

#[derive(Clone, Copy, Debug, Serialize, Deserialize, PartialEq, Eq)]
pub enum Merge {
    Min,
    Max,
    Or,
    And,
    /// (min old (min new old)) -- still ACI
    MinNested,
    /// (max (max old new) new)
    MaxNested,
    NoMerge,
}

#[derive(Clone, Debug, Serialize, Deserialize, PartialEq, Eq)]
pub enum FKind {
    Ctor { cost: Option<i64>, unextractable: bool },
    Rel,
    Func { merge: Merge },
}

#[derive(Clone, Debug, Serialize, Deserialize, PartialEq, Eq)]
pub struct FuncDecl {
    pub name: String,
    pub kind: FKind,
    pub args: Vec<Ty>,
    pub out: Ty,
}

impl FuncDecl {
    pub fn is_ctor(&self) -> bool {
        matches!(self.kind, FKind::Ctor { .. })
    }
    pub fn is_rel(&self) -> bool {
        matches!(self.kind, FKind::Rel)
    }
    pub fn is_func(&self) -> bool {
        matches!(self.kind, FKind::Func { .. })
    }
}

#[derive(Clone, Debug, Serialize, Deserialize, PartialEq, Eq, Default)]
pub struct Sig {
    pub sorts: Vec<String>,
    pub conts: Vec<ContDecl>,
    pub funcs: Vec<FuncDecl>,
    pub rulesets: Vec<String>,
    /// combined rulesets: (name, member ruleset indices)
    pub combined: Vec<(String, Vec<usize>)>,
}

#[derive(Clone, Debug, Serialize, Deserialize, PartialEq, Eq, Hash, PartialOrd, Ord)]
pub enum Term {
    Var(String),
    I(i64),
    B(bool),
    /// application of a declared table (constructor / function / relation)
    App(usize, Vec<Term>),
    /// primitive application (+, min, <, vec-of, ...)
    Prim(String, Vec<Term>),
}

#[derive(Clone, Debug, Serialize, Deserialize, PartialEq, Eq)]
pub enum Fact {
    Eq(Term, Term),
    T(Term),
}

#[derive(Clone, Debug, Serialize, Deserialize, PartialEq, Eq)]
pub enum Action {
    /// bare expression: insert term / relation tuple
    Expr(Term),
    Union(Term, Term),
    Set(usize, Vec<Term>, Term),
    Subsume(usize, Vec<Term>),
    Delete(usize, Vec<Term>),
    Panic(String),
}

#[derive(Clone, Debug, Serialize, Deserialize, PartialEq, Eq)]
pub enum Sched {
    /// (run [ruleset] [:until facts]) -- one iteration
    Run { rs: Option<usize>, until: Vec<Fact> },
    Repeat(usize, Vec<Sched>),
    Saturate(Vec<Sched>),
    Seq(Vec<Sched>),
}

#[derive(Clone, Debug, Serialize, Deserialize, PartialEq, Eq, Default)]
pub struct RuleOpts {
    pub ruleset: Option<usize>,
    pub naive: bool,
    pub no_decomp: bool,
    pub name: Option<String>,
}

#[derive(Clone, Debug, Serialize, Deserialize, PartialEq, Eq)]
pub enum Cmd {
    Act(Action),
    Rule { body: Vec<Fact>, head: Vec<Action>, opts: RuleOpts },
    Rewrite { lhs: Term, rhs: Term, when: Vec<Fact>, subsume: bool, bi: bool, ruleset: Option<usize> },
    /// (run [rs] n [:until ..])
    RunN { rs: Option<usize>, n: usize, until: Vec<Fact> },
    Sched(Sched),
    Check(Vec<Fact>),
    Extract(Term, Option<usize>),
    PrintSize(Option<usize>),
    PrintFunction(usize, usize),
    Push,
    Pop,
    /// opaque text: only for differential / metamorphic checks, not interpreted by the model
    Raw(String),
}

#[derive(Clone, Debug, Serialize, Deserialize, PartialEq, Eq, Default)]
pub struct Prog {
    pub sig: Sig,
    pub cmds: Vec<Cmd>,
}

// ---------------------------------------------------------------------------
// printing
// ---------------------------------------------------------------------------

impl Sig {
    pub fn ty_name(&self, t: &Ty) -> String {
        match t {
            Ty::Eq(i) => self.sorts[*i].clone(),
            Ty::I64 => "i64".into(),
            Ty::Bool => "bool".into(),
            Ty::Cont(i) => self.conts[*i].name.clone(),
        }
    }

    pub fn rs_name(&self, i: usize) -> String {
        if i < self.rulesets.len() {
            self.rulesets[i].clone()
        } else {
            self.combined[i - self.rulesets.len()].0.clone()
        }
    }

    pub fn merge_text(m: Merge) -> &'static str {
        match m {
            Merge::Min => ":merge (min old new)",
            Merge::Max => ":merge (max old new)",
            Merge::Or => ":merge (or old new)",
            Merge::And => ":merge (and old new)",
            Merge::MinNested => ":merge (min old (min new old))",
            Merge::MaxNested => ":merge (max (max old new) new)",
            Merge::NoMerge => ":no-merge",
        }
    }

    pub fn func_decl_text(&self, f: &FuncDecl) -> String {
        let args: Vec<String> = f.args.iter().map(|t| self.ty_name(t)).collect();
        match &f.kind {
            FKind::Ctor { cost, unextractable } => {
                let mut s = format!("(constructor {} ({}) {}", f.name, args.join(" "), self.ty_name(&f.out));
                if let Some(c) = cost {
                    s.push_str(&format!(" :cost {c}"));
                }
                if *unextractable {
                    s.push_str(" :unextractable");
                }
                s.push(')');
                s
            }
            FKind::Rel => format!("(relation {} ({}))", f.name, args.join(" ")),
            FKind::Func { merge } => {
                format!("(function {} ({}) {} {})", f.name, args.join(" "), self.ty_name(&f.out), Self::merge_text(*merge))
            }
        }
    }

    /// declarations, one command per element
    pub fn prelude(&self) -> Vec<String> {
        let mut out = vec![];
        for s in &self.sorts {
            out.push(format!("(sort {s})"));
        }
        for c in &self.conts {
            let k = match c.kind {
                ContKind::Vec => "Vec",
                ContKind::Set => "Set",
                ContKind::MultiSet => "MultiSet",
            };
            out.push(format!("(sort {} ({} {}))", c.name, k, self.ty_name(&c.elem)));
        }
        for f in &self.funcs {
            out.push(self.func_decl_text(f));
        }
        for r in &self.rulesets {
            out.push(format!("(ruleset {r})"));
        }
        for (n, members) in &self.combined {
            let ms: Vec<String> = members.iter().map(|m| self.rs_name(*m)).collect();
            out.push(format!("(unstable-combined-ruleset {} {})", n, ms.join(" ")));
        }
        out
    }

    pub fn term(&self, t: &Term) -> String {
        match t {
            Term::Var(v) => v.clone(),
            Term::I(i) => i.to_string(),
            Term::B(b) => b.to_string(),
            Term::App(f, args) => {
                if args.is_empty() {
                    format!("({})", self.funcs[*f].name)
                } else {
                    let a: Vec<String> = args.iter().map(|x| self.term(x)).collect();
                    format!("({} {})", self.funcs[*f].name, a.join(" "))
                }
            }
            Term::Prim(p, args) => {
                if args.is_empty() {
                    format!("({p})")
                } else {
                    let a: Vec<String> = args.iter().map(|x| self.term(x)).collect();
                    format!("({} {})", p, a.join(" "))
                }
            }
        }
    }

    pub fn fact(&self, f: &Fact) -> String {
        match f {
            Fact::Eq(a, b) => format!("(= {} {})", self.term(a), self.term(b)),
            Fact::T(t) => self.term(t),
        }
    }

    pub fn facts(&self, fs: &[Fact]) -> String {
        fs.iter().map(|f| self.fact(f)).collect::<Vec<_>>().join(" ")
    }

    pub fn app(&self, f: usize, args: &[Term]) -> String {
        self.term(&Term::App(f, args.to_vec()))
    }

    pub fn action(&self, a: &Action) -> String {
        match a {
            Action::Expr(t) => self.term(t),
            Action::Union(a, b) => format!("(union {} {})", self.term(a), self.term(b)),
            Action::Set(f, args, v) => format!("(set {} {})", self.app(*f, args), self.term(v)),
            Action::Subsume(f, args) => format!("(subsume {})", self.app(*f, args)),
            Action::Delete(f, args) => format!("(delete {})", self.app(*f, args)),
            Action::Panic(m) => format!("(panic \"{m}\")"),
        }
    }

    pub fn sched(&self, s: &Sched) -> String {
        match s {
            Sched::Run { rs, until } => {
                let mut o = String::from("(run");
                if let Some(r) = rs {
                    o.push(' ');
                    o.push_str(&self.rs_name(*r));
                }
                if !until.is_empty() {
                    o.push_str(&format!(" :until {}", self.facts(until)));
                }
                o.push(')');
                o
            }
            Sched::Repeat(n, ss) => format!("(repeat {} {})", n, ss.iter().map(|s| self.sched(s)).collect::<Vec<_>>().join(" ")),
            Sched::Saturate(ss) => format!("(saturate {})", ss.iter().map(|s| self.sched(s)).collect::<Vec<_>>().join(" ")),
            Sched::Seq(ss) => format!("(seq {})", ss.iter().map(|s| self.sched(s)).collect::<Vec<_>>().join(" ")),
        }
    }

    pub fn cmd(&self, c: &Cmd) -> String {
        match c {
            Cmd::Act(a) => self.action(a),
            Cmd::Rule { body, head, opts } => {
                let mut s = format!(
                    "(rule ({}) ({})",
                    self.facts(body),
                    head.iter().map(|a| self.action(a)).collect::<Vec<_>>().join(" ")
                );
                if let Some(r) = opts.ruleset {
                    s.push_str(&format!(" :ruleset {}", self.rs_name(r)));
                }
                if let Some(n) = &opts.name {
                    s.push_str(&format!(" :name \"{n}\""));
                }
                if opts.naive {
                    s.push_str(" :naive");
                }
                if opts.no_decomp {
                    s.push_str(" :no-decomp");
                }
                s.push(')');
                s
            }
            Cmd::Rewrite { lhs, rhs, when, subsume, bi, ruleset } => {
                let mut s = format!("({} {} {}", if *bi { "birewrite" } else { "rewrite" }, self.term(lhs), self.term(rhs));
                if *subsume {
                    s.push_str(" :subsume");
                }
                if !when.is_empty() {
                    s.push_str(&format!(" :when ({})", self.facts(when)));
                }
                if let Some(r) = ruleset {
                    s.push_str(&format!(" :ruleset {}", self.rs_name(*r)));
                }
                s.push(')');
                s
            }
            Cmd::RunN { rs, n, until } => {
                let mut s = String::from("(run");
                if let Some(r) = rs {
                    s.push(' ');
                    s.push_str(&self.rs_name(*r));
                }
                s.push_str(&format!(" {n}"));
                if !until.is_empty() {
                    s.push_str(&format!(" :until {}", self.facts(until)));
                }
                s.push(')');
                s
            }
            Cmd::Sched(sc) => format!("(run-schedule {})", self.sched(sc)),
            Cmd::Check(fs) => format!("(check {})", self.facts(fs)),
            Cmd::Extract(t, None) => format!("(extract {})", self.term(t)),
            Cmd::Extract(t, Some(k)) => format!("(extract {} {})", self.term(t), k),
            Cmd::PrintSize(None) => "(print-size)".into(),
            Cmd::PrintSize(Some(f)) => format!("(print-size {})", self.funcs[*f].name),
            Cmd::PrintFunction(f, n) => format!("(print-function {} {})", self.funcs[*f].name, n),
            Cmd::Push => "(push)".into(),
            Cmd::Pop => "(pop)".into(),
            Cmd::Raw(s) => s.clone(),
        }
    }
}

impl Prog {
    pub fn text(&self) -> String {
        let mut lines = self.sig.prelude();
        for c in &self.cmds {
            lines.push(self.sig.cmd(c));
        }
        lines.join("\n")
    }
    pub fn cmd_texts(&self) -> Vec<String> {
        self.cmds.iter().map(|c| self.sig.cmd(c)).collect()
    }
}

impl Term {
    pub fn vars(&self, out: &mut Vec<String>) {
        match self {
            Term::Var(v) => {
                if !out.contains(v) {
                    out.push(v.clone())
                }
            }
            Term::App(_, a) | Term::Prim(_, a) => a.iter().for_each(|x| x.vars(out)),
            _ => {}
        }
    }
    pub fn size(&self) -> usize {
        match self {
            Term::App(_, a) | Term::Prim(_, a) => 1 + a.iter().map(|x| x.size()).sum::<usize>(),
            _ => 1,
        }
    }
    pub fn subterms(&self, out: &mut Vec<Term>) {
        if let Term::App(_, a) | Term::Prim(_, a) = self {
            a.iter().for_each(|x| x.subterms(out));
        }
        if !out.contains(self) {
            out.push(self.clone());
        }
    }
}

// ---------------------------------------------------------------------------
// parsing printed ground terms back (for extraction round trips)
// ---------------------------------------------------------------------------

#[derive(Debug, Clone, PartialEq)]
pub enum Sx {
    Atom(String),
    List(Vec<Sx>),
}

pub fn parse_sexp(s: &str) -> Option<Sx> {
    let mut toks: Vec<String> = vec![];
    let mut cur = String::new();
    let mut in_str = false;
    let mut chars = s.chars().peekable();
    while let Some(c) = chars.next() {
        if in_str {
            cur.push(c);
            if c == '\\' {
                if let Some(n) = chars.next() {
                    cur.push(n);
                }
            } else if c == '"' {
                in_str = false;
                toks.push(std::mem::take(&mut cur));
            }
            continue;
        }
        match c {
            '"' => {
                if !cur.is_empty() {
                    toks.push(std::mem::take(&mut cur));
                }
                cur.push(c);
                in_str = true;
            }
            '(' | ')' => {
                if !cur.is_empty() {
                    toks.push(std::mem::take(&mut cur));
                }
                toks.push(c.to_string());
            }
            c if c.is_whitespace() => {
                if !cur.is_empty() {
                    toks.push(std::mem::take(&mut cur));
                }
            }
            c => cur.push(c),
        }
    }
    if !cur.is_empty() {
        toks.push(cur);
    }
    fn go(toks: &[String], pos: &mut usize) -> Option<Sx> {
        let t = toks.get(*pos)?;
        *pos += 1;
        if t == "(" {
            let mut items = vec![];
            loop {
                if toks.get(*pos)? == ")" {
                    *pos += 1;
                    return Some(Sx::List(items));
                }
                items.push(go(toks, pos)?);
            }
        } else if t == ")" {
            None
        } else {
            Some(Sx::Atom(t.clone()))
        }
    }
    let mut pos = 0;
    let r = go(&toks, &mut pos)?;
    if pos == toks.len() { Some(r) } else { None }
}

impl Sig {
    pub fn term_of_sexp(&self, sx: &Sx) -> Option<Term> {
        match sx {
            Sx::Atom(a) => {
                if let Ok(i) = a.parse::<i64>() {
                    Some(Term::I(i))
                } else if a == "true" {
                    Some(Term::B(true))
                } else if a == "false" {
                    Some(Term::B(false))
                } else {
                    None
                }
            }
            Sx::List(items) => {
                let Sx::Atom(h) = items.first()? else { return None };
                let args: Option<Vec<Term>> = items[1..].iter().map(|x| self.term_of_sexp(x)).collect();
                let args = args?;
                if let Some(fi) = self.funcs.iter().position(|f| f.name == *h) {
                    // a function row printed as a term carries its value as an extra last argument: (f k.. v)
                    let n = self.funcs[fi].args.len();
                    if !(args.len() == n || (self.funcs[fi].is_func() && args.len() == n + 1)) {
                        return None;
                    }
                    Some(Term::App(fi, args))
                } else {
                    Some(Term::Prim(h.clone(), args))
                }
            }
        }
    }
    pub fn parse_term(&self, s: &str) -> Option<Term> {
        self.term_of_sexp(&parse_sexp(s.trim())?)
    }
}
