//! Framework: stages, the proptest-driven explorer, known findings, replay
//! files, evidence.

use crate::choice::{fnv_str, mix, Src};
use proptest::collection::vec as pvec;
use proptest::prelude::any;
use proptest::test_runner::{Config, RngSeed, TestCaseError, TestError, TestRunner};
use serde::de::DeserializeOwned;
use serde::Serialize;
use serde_json::{json, Value as J};
use std::collections::{BTreeMap, BTreeSet};
use std::path::PathBuf;
use std::sync::atomic::{AtomicBool, AtomicUsize, Ordering};
use std::sync::Mutex;
use std::time::Instant;

#[derive(Clone, Copy, PartialEq, Eq, Debug)]
pub enum Tier {
    Quick,
    Thorough,
}

impl Tier {
    pub fn pick<T>(&self, q: T, t: T) -> T {
        match self {
            Tier::Quick => q,
            Tier::Thorough => t,
        }
    }
    pub fn name(&self) -> &'static str {
        match self {
            Tier::Quick => "quick",
            Tier::Thorough => "thorough",
        }
    }
}

#[derive(Clone, Debug, Serialize, serde::Deserialize)]
pub struct Violation {
    /// root-cause key; compared against known-findings.jsonl
    pub sig: String,
    pub detail: String,
}

impl Violation {
    pub fn new(sig: impl Into<String>, detail: impl Into<String>) -> Self {
        Violation { sig: sig.into(), detail: detail.into() }
    }
}

pub struct Outcome {
    /// identifies the case for the distinct count
    pub key: u64,
    pub nontrivial: bool,
    pub classes: Vec<String>,
    pub counters: Vec<(String, u64)>,
    pub fail: Option<Violation>,
    /// further violations that matched (or may match) known findings: the case continues after them
    pub soft: Vec<Violation>,
}

impl Outcome {
    pub fn new(key: u64) -> Self {
        Outcome { key, nontrivial: false, classes: vec![], counters: vec![], fail: None, soft: vec![] }
    }
    pub fn class(&mut self, c: impl Into<String>) {
        self.classes.push(c.into());
    }
    pub fn count(&mut self, c: impl Into<String>, n: u64) {
        self.counters.push((c.into(), n));
    }
    pub fn fail(&mut self, sig: impl Into<String>, detail: impl Into<String>) {
        if self.fail.is_none() {
            self.fail = Some(Violation::new(sig, detail));
        }
    }
}

pub trait Stage: Sync {
    type Input: Serialize + DeserializeOwned + Clone + Send;
    fn name(&self) -> &'static str;
    fn decode(&self, src: &mut Src) -> Self::Input;
    fn check(&self, inp: &Self::Input) -> Outcome;
    /// human-readable form for samples and replay files
    fn render(&self, inp: &Self::Input) -> J {
        serde_json::to_value(inp).unwrap_or(J::Null)
    }
    /// structurally smaller variants for the second (case-level) shrink pass
    fn simplify(&self, _inp: &Self::Input) -> Vec<Self::Input> {
        vec![]
    }
}

#[derive(Clone, Debug, serde::Deserialize)]
pub struct KnownFinding {
    pub property: String,
    pub status: String,
    pub signature: String,
    #[serde(default)]
    pub what: String,
}

#[derive(Default)]
struct StageStats {
    evaluations: u64,
    nontrivial: BTreeSet<u64>,
    distinct: BTreeSet<u64>,
}

#[derive(Default)]
struct Inner {
    stages: BTreeMap<String, StageStats>,
    classes: BTreeMap<String, u64>,
    counters: BTreeMap<String, u64>,
    samples: Vec<J>,
    trivial_samples: Vec<J>,
    known_hits: BTreeMap<String, (u64, String)>,
    violations: Vec<(Violation, String)>,
    notes: Vec<String>,
    extra: BTreeMap<String, J>,
    exhaustive: bool,
    inconclusive: Vec<String>,
}

pub struct Report {
    pub prop: String,
    pub tier: Tier,
    pub seed: u64,
    pub threads: usize,
    pub rule: Mutex<String>,
    pub assumptions: Mutex<Vec<String>>,
    known: Vec<KnownFinding>,
    inner: Mutex<Inner>,
    start: Instant,
    stop: AtomicBool,
    pub strict: bool,
}

pub fn verif_root() -> PathBuf {
    if let Ok(p) = std::env::var("VERIF_ROOT") {
        return PathBuf::from(p);
    }
    // harness binary lives in <root>/harness/target/release/vcheck
    let exe = std::env::current_exe().unwrap();
    let mut p = exe.clone();
    for _ in 0..4 {
        p.pop();
    }
    if p.join("properties.jsonl").exists() {
        return p;
    }
    PathBuf::from("/verif")
}

impl Report {
    pub fn new(prop: &str, tier: Tier, seed: u64) -> Self {
        let mut known = vec![];
        let kf = verif_root().join("known-findings.jsonl");
        if let Ok(s) = std::fs::read_to_string(&kf) {
            for l in s.lines() {
                let l = l.trim();
                if l.is_empty() || l.starts_with('#') {
                    continue;
                }
                match serde_json::from_str::<KnownFinding>(l) {
                    Ok(k) => known.push(k),
                    Err(e) => eprintln!("warning: unparsable known-findings line: {e}"),
                }
            }
        }
        let threads = std::env::var("VERIF_THREADS")
            .ok()
            .and_then(|s| s.parse().ok())
            .unwrap_or_else(|| std::thread::available_parallelism().map(|n| n.get()).unwrap_or(8));
        Report {
            prop: prop.to_string(),
            tier,
            seed,
            threads,
            rule: Mutex::new(String::new()),
            assumptions: Mutex::new(vec![]),
            known,
            inner: Mutex::new(Inner::default()),
            start: Instant::now(),
            stop: AtomicBool::new(false),
            strict: std::env::var("VERIF_STRICT").is_ok(),
        }
    }

    pub fn set_rule(&self, r: &str) {
        *self.rule.lock().unwrap() = r.to_string();
    }
    pub fn assume(&self, a: &str) {
        self.assumptions.lock().unwrap().push(a.to_string());
    }
    pub fn note(&self, n: impl Into<String>) {
        self.inner.lock().unwrap().notes.push(n.into());
    }
    pub fn extra(&self, k: &str, v: J) {
        self.inner.lock().unwrap().extra.insert(k.to_string(), v);
    }
    pub fn set_exhaustive(&self) {
        self.inner.lock().unwrap().exhaustive = true;
    }
    pub fn inconclusive(&self, why: impl Into<String>) {
        self.inner.lock().unwrap().inconclusive.push(why.into());
    }
    pub fn stopped(&self) -> bool {
        self.stop.load(Ordering::Relaxed)
    }
    pub fn count(&self, k: &str, n: u64) {
        *self.inner.lock().unwrap().counters.entry(k.to_string()).or_insert(0) += n;
    }

    pub fn is_known(&self, sig: &str) -> Option<&KnownFinding> {
        if self.strict {
            return None;
        }
        self.known
            .iter()
            .find(|k| k.property == self.prop && k.status == "known" && (k.signature == sig))
    }

    /// Record one evaluated case. Returns the violation if it is not a known finding.
    pub fn record(&self, stage: &str, out: Outcome, rendered: impl FnOnce() -> J) -> Option<Violation> {
        PROGRESS.fetch_add(1, Ordering::Relaxed);
        if std::env::var("VERIF_TRACE_CASES").is_ok() {
            eprintln!("[case done] stage={stage} t={:.1}s", self.start.elapsed().as_secs_f64());
        }
        let mut inner = self.inner.lock().unwrap();
        let st = inner.stages.entry(stage.to_string()).or_default();
        st.evaluations += 1;
        st.distinct.insert(out.key);
        let mut fresh_nt = false;
        if out.nontrivial {
            fresh_nt = st.nontrivial.insert(out.key);
        }
        for c in &out.classes {
            *inner.classes.entry(format!("{stage}:{c}")).or_insert(0) += 1;
        }
        for (c, n) in &out.counters {
            *inner.counters.entry(format!("{stage}:{c}")).or_insert(0) += n;
        }
        let want_sample = (fresh_nt && inner.samples.len() < 4) || (!out.nontrivial && inner.trivial_samples.len() < 1);
        if want_sample {
            let r = json!({"stage": stage, "nontrivial": out.nontrivial, "case": rendered()});
            if out.nontrivial {
                inner.samples.push(r);
            } else {
                inner.trivial_samples.push(r);
            }
        }
        let mut hard = None;
        let mut all = out.soft;
        if let Some(v) = out.fail {
            all.push(v);
        }
        for v in all {
            if self.is_known(&v.sig).is_some() {
                let e = inner.known_hits.entry(v.sig.clone()).or_insert((0, v.detail.clone()));
                e.0 += 1;
            } else if hard.is_none() {
                hard = Some(v);
            }
        }
        hard
    }

    pub fn add_violation(&self, v: Violation, replay: String) {
        {
            let inner = self.inner.lock().unwrap();
            if inner.violations.iter().any(|(x, _)| x.sig == v.sig) && inner.violations.len() >= 1 {
                drop(inner);
                self.inner.lock().unwrap().violations.push((v, replay));
                return;
            }
        }
        VIOLATION_PRINTED.store(true, Ordering::Relaxed);
        *PENDING.lock().unwrap() = None;
        println!("VIOLATION property={} replay={}", self.prop, replay);
        println!("  signature: {}", v.sig);
        for l in v.detail.lines().take(40) {
            println!("  | {l}");
        }
        self.inner.lock().unwrap().violations.push((v, replay));
        self.stop.store(true, Ordering::Relaxed);
    }

    pub fn write_replay<S: Stage>(&self, stage: &S, inp: &S::Input, v: &Violation) -> String {
        let dir = verif_root().join("replays");
        let _ = std::fs::create_dir_all(&dir);
        let body = json!({
            "property": self.prop,
            "stage": stage.name(),
            "violation": v,
            "rendered": stage.render(inp),
            "input": serde_json::to_value(inp).unwrap_or(J::Null),
        });
        let text = serde_json::to_string_pretty(&body).unwrap();
        let h = fnv_str(&text);
        let path = dir.join(format!("{}-{}-{:016x}.json", self.prop, stage.name(), h));
        let _ = std::fs::write(&path, text);
        path.display().to_string()
    }

    /// Run one explicit input through a stage (regressions, golden cases, replays).
    pub fn run_one<S: Stage>(&self, stage: &S, inp: &S::Input) -> Option<Violation> {
        let out = guarded_check(stage, inp);
        let hard = self.record(stage.name(), out, || stage.render(inp));
        if let Some(v) = &hard {
            let p = self.write_replay(stage, inp, v);
            self.add_violation(v.clone(), p);
        }
        hard
    }

    /// Replay all committed regression inputs for this stage.
    pub fn run_regressions<S: Stage>(&self, stage: &S) {
        let dir = verif_root().join("regressions").join(&self.prop);
        let Ok(rd) = std::fs::read_dir(&dir) else { return };
        let mut files: Vec<_> = rd.filter_map(|e| e.ok()).map(|e| e.path()).collect();
        files.sort();
        for f in files {
            let Ok(s) = std::fs::read_to_string(&f) else { continue };
            let Ok(j) = serde_json::from_str::<J>(&s) else { continue };
            if j.get("stage").and_then(|x| x.as_str()) != Some(stage.name()) {
                continue;
            }
            match serde_json::from_value::<S::Input>(j["input"].clone()) {
                Ok(inp) => {
                    self.count("regressions_replayed", 1);
                    self.run_one(stage, &inp);
                }
                Err(e) => self.note(format!("regression {} not decodable: {e}", f.display())),
            }
        }
    }

    /// Generated-input search: `cases` byte strings of length < max_len, from
    /// proptest, farmed in fixed chunks over the worker threads. Outcome is a
    /// pure function of (code, seed).
    pub fn explore<S: Stage>(&self, stage: &S, cases: usize, max_len: usize) {
        if self.stopped() {
            return;
        }
        // sub-runs (same stages under another process-wide configuration, e.g. all parallel cut-offs 0 with 4 engine
        // threads) are much slower per case: a fixed fraction of the work
        let cases = if std::env::var("VERIF_SUBRUN").is_ok() { (cases / 60).max(24) } else { cases };
        let chunk_size = (cases / 64).clamp(4, 256);
        let n_chunks = cases.div_ceil(chunk_size);
        let next = AtomicUsize::new(0);
        let base = mix(self.seed, fnv_str(&format!("{}/{}", self.prop, stage.name())));
        std::thread::scope(|sc| {
            for _ in 0..self.threads.min(n_chunks).max(1) {
                sc.spawn(|| loop {
                    let c = next.fetch_add(1, Ordering::Relaxed);
                    if c >= n_chunks || self.stopped() {
                        break;
                    }
                    self.run_chunk(stage, mix(base, c as u64), chunk_size.min(cases - c * chunk_size), max_len);
                });
            }
        });
    }

    fn run_chunk<S: Stage>(&self, stage: &S, seed: u64, cases: usize, max_len: usize) {
        let cfg = Config {
            cases: cases as u32,
            failure_persistence: None,
            rng_seed: RngSeed::Fixed(seed),
            max_shrink_iters: 4000,
            // minimisation is bounded in wall time as well (it only affects how small the replay file is, never the verdict)
            max_shrink_time: shrink_ms(self.tier),
            ..Config::default()
        };
        let mut runner = TestRunner::new(cfg);
        let failed = AtomicBool::new(false);
        let strat = pvec(any::<u8>(), 0..max_len.max(1));
        let res = runner.run(&strat, |bytes| {
            if self.stopped() && !failed.load(Ordering::Relaxed) {
                return Ok(());
            }
            let inp = stage.decode(&mut Src::new(&bytes));
            let out = guarded_check(stage, &inp);
            if failed.load(Ordering::Relaxed) {
                // shrinking: do not count, only classify
                let mut hard = None;
                let mut all = out.soft;
                if let Some(v) = out.fail {
                    all.push(v);
                }
                for v in all {
                    if self.is_known(&v.sig).is_none() {
                        hard = Some(v);
                        break;
                    }
                }
                return match hard {
                    Some(v) => Err(TestCaseError::fail(v.sig)),
                    None => Ok(()),
                };
            }
            match self.record(stage.name(), out, || stage.render(&inp)) {
                None => Ok(()),
                Some(v) => {
                    failed.store(true, Ordering::Relaxed);
                    // keep the unshrunk input: if minimisation stalls, the watchdog reports this one
                    let p = self.write_replay(stage, &inp, &v);
                    *PENDING.lock().unwrap() = Some((self.prop.clone(), p, v.sig.clone()));
                    Err(TestCaseError::fail(v.sig))
                }
            }
        });
        if let Err(e) = res {
            match e {
                TestError::Fail(_, bytes) => {
                    let mut inp = stage.decode(&mut Src::new(&bytes));
                    let mut viol = first_hard(self, guarded_check(stage, &inp));
                    let Some(mut v) = viol.take() else {
                        // flaky: failure did not reproduce on the shrunk input
                        self.note(format!("stage {}: a failure did not reproduce after shrinking (nondeterministic case?)", stage.name()));
                        self.inconclusive("non-reproducible failure");
                        *PENDING.lock().unwrap() = None;
                        return;
                    };
                    // second pass: structural simplification with the same signature
                    let mut budget = 600usize;
                    let deadline = Instant::now() + std::time::Duration::from_millis(shrink_ms(self.tier) as u64 / 2);
                    'outer: loop {
                        for cand in stage.simplify(&inp) {
                            if budget == 0 || Instant::now() > deadline {
                                break 'outer;
                            }
                            budget -= 1;
                            if let Some(v2) = first_hard(self, guarded_check(stage, &cand)) {
                                if v2.sig == v.sig {
                                    inp = cand;
                                    v = v2;
                                    continue 'outer;
                                }
                            }
                        }
                        break;
                    }
                    let p = self.write_replay(stage, &inp, &v);
                    self.add_violation(v, p);
                }
                TestError::Abort(r) => {
                    self.note(format!("stage {}: proptest aborted: {r}", stage.name()));
                    self.inconclusive("proptest abort");
                }
            }
        }
    }

    /// Run this same check again in a sub-process with extra environment (e.g. EGGLOG_PARALLEL_*_CUTOFF=0, which is
    /// read once per process) and a marker variable the property module reacts to. The sub-process writes no
    /// evidence; its VIOLATION lines are forwarded and counted, its summary counters are added under `label`.
    pub fn run_self_with_env(&self, label: &str, env: &[(String, String)]) {
        if self.stopped() {
            return;
        }
        let exe = match std::env::current_exe() {
            Ok(e) => e,
            Err(_) => return,
        };
        let mut cmd = std::process::Command::new(exe);
        cmd.arg(&self.prop).arg("--tier").arg(self.tier.name()).arg("--seed").arg(self.seed.to_string());
        // few harness workers: every engine in the sub-run owns a thread pool of its own
        cmd.env("VERIF_NO_EVIDENCE", "1").env("VERIF_SUBRUN", label).env("VERIF_THREADS", "5");
        for (k, v) in env {
            cmd.env(k, v);
        }
        cmd.stdout(std::process::Stdio::piped()).stderr(std::process::Stdio::null());
        let mut ch = match cmd.spawn() {
            Ok(c) => c,
            Err(e) => {
                self.inconclusive(format!("cannot start sub-run {label}: {e}"));
                return;
            }
        };
        let mut so = ch.stdout.take().unwrap();
        let reader = std::thread::spawn(move || {
            let mut s = String::new();
            let _ = std::io::Read::read_to_string(&mut so, &mut s);
            s
        });
        // the sub-run has a watchdog of its own; here progress = its CPU time advancing, under an overall cap
        let cap = std::time::Duration::from_secs(if self.tier == Tier::Thorough { 7200 } else { 1500 });
        let t0 = Instant::now();
        let mut last_cpu = 0u64;
        let status = loop {
            match ch.try_wait() {
                Ok(Some(st)) => break Some(st),
                Ok(None) => {}
                Err(_) => break None,
            }
            if t0.elapsed() > cap {
                let _ = ch.kill();
                let _ = ch.wait();
                break None;
            }
            if let Some((cpu, _)) = crate::child::cpu_ticks(ch.id()) {
                if cpu != last_cpu {
                    last_cpu = cpu;
                    PROGRESS.fetch_add(1, Ordering::Relaxed);
                }
            }
            std::thread::sleep(std::time::Duration::from_millis(300));
        };
        let text = reader.join().unwrap_or_default();
        let code = match status {
            Some(st) => st.code().unwrap_or(2),
            None => 2,
        };
        let mut inner = self.inner.lock().unwrap();
        for l in text.lines() {
            if l.starts_with("VIOLATION ") {
                println!("{l}   [sub-run {label}]");
                inner.violations.push((Violation::new(format!("sub-run:{label}"), l.to_string()), String::new()));
            } else if l.starts_with("  signature:") || l.starts_with("  | ") {
                println!("{l}");
            } else if l.starts_with("KNOWN-FINDING") {
                println!("{l}   [sub-run {label}]");
            } else if l.contains("evaluations=") {
                // "<ID> quick: evaluations=N distinct_nontrivial=M ..."
                for tok in l.split_whitespace() {
                    if let Some((k, v)) = tok.split_once('=') {
                        if let Ok(n) = v.parse::<u64>() {
                            if k == "evaluations" || k == "distinct_nontrivial" {
                                *inner.counters.entry(format!("subrun:{label}:{k}")).or_insert(0) += n;
                            }
                        }
                    }
                }
            }
        }
        if code == 1 {
            self.stop.store(true, Ordering::Relaxed);
        } else if code != 0 {
            inner.inconclusive.push(format!("sub-run {label} exited with {code}"));
        }
    }

    /// Finish: print known findings, write evidence, return the exit code.
    pub fn finish(&self) -> i32 {
        let inner = self.inner.lock().unwrap();
        for (sig, (n, _)) in &inner.known_hits {
            let what = self.known.iter().find(|k| &k.signature == sig).map(|k| k.what.clone()).unwrap_or_default();
            println!("KNOWN-FINDING: property={} {} [{}] (hit {} times)", self.prop, what, sig, n);
        }
        let evaluations: u64 = inner.stages.values().map(|s| s.evaluations).sum();
        let nontrivial: usize = inner.stages.values().map(|s| s.nontrivial.len()).sum();
        let mut samples = inner.samples.clone();
        if samples.is_empty() {
            samples = inner.trivial_samples.clone();
        }
        let stages: BTreeMap<_, _> = inner
            .stages
            .iter()
            .map(|(k, s)| (k.clone(), json!({"evaluations": s.evaluations, "distinct": s.distinct.len(), "distinct_nontrivial": s.nontrivial.len()})))
            .collect();
        let mut coverage = json!({
            "evaluations": evaluations,
            "distinct_nontrivial": nontrivial,
            "rule": *self.rule.lock().unwrap(),
            "samples": samples,
            "stages": stages,
            "class_distribution": inner.classes,
            "counters": inner.counters,
            "known_findings_hit": inner.known_hits.iter().map(|(k,(n,d))| json!({"signature":k,"hits":n,"example":d})).collect::<Vec<_>>(),
            "notes": inner.notes,
            "threads": self.threads,
        });
        if inner.exhaustive {
            coverage["exhaustive"] = json!(true);
        }
        for (k, v) in &inner.extra {
            coverage[k] = v.clone();
        }
        let ev = json!({
            "property_id": self.prop,
            "tier": self.tier.name(),
            "seed": self.seed,
            "level": "exploration",
            "coverage": coverage,
            "assumptions": *self.assumptions.lock().unwrap(),
            "wall_s": self.start.elapsed().as_secs_f64(),
            "violations": inner.violations.len(),
        });
        let dir = verif_root().join("evidence");
        let _ = std::fs::create_dir_all(&dir);
        let path = dir.join(format!("{}.json", self.prop));
        if std::env::var("VERIF_NO_EVIDENCE").is_err() {
            if let Err(e) = std::fs::write(&path, serde_json::to_string_pretty(&ev).unwrap()) {
                eprintln!("cannot write evidence: {e}");
            }
        }
        println!(
            "{} {}: evaluations={} distinct_nontrivial={} known_findings={} violations={} wall={:.1}s",
            self.prop,
            self.tier.name(),
            evaluations,
            nontrivial,
            inner.known_hits.len(),
            inner.violations.len(),
            self.start.elapsed().as_secs_f64()
        );
        if !inner.violations.is_empty() {
            1
        } else if !inner.inconclusive.is_empty() {
            println!("INCONCLUSIVE: {}", inner.inconclusive.join("; "));
            2
        } else {
            0
        }
    }
}

fn first_hard(rep: &Report, out: Outcome) -> Option<Violation> {
    let mut all = out.soft;
    if let Some(v) = out.fail {
        all.push(v);
    }
    all.into_iter().find(|v| rep.is_known(&v.sig).is_none())
}

pub static PROGRESS: std::sync::atomic::AtomicU64 = std::sync::atomic::AtomicU64::new(0);
pub static VIOLATION_PRINTED: AtomicBool = AtomicBool::new(false);
/// (property, replay path, signature) of a failure that is still being minimised
pub static PENDING: Mutex<Option<(String, String, String)>> = Mutex::new(None);

/// wall-clock bound for proptest's shrinking of one failure, in ms; sub-runs (every case is expensive there) get less
pub fn shrink_ms(tier: Tier) -> u32 {
    if std::env::var("VERIF_SUBRUN").is_ok() {
        30_000
    } else if tier == Tier::Thorough {
        300_000
    } else {
        90_000
    }
}

/// Hang watchdog: if no case completes for `limit`, the run is inconclusive (exit 2), never a violation.
pub fn spawn_watchdog(limit: std::time::Duration) {
    std::thread::spawn(move || {
        let mut last = PROGRESS.load(Ordering::Relaxed);
        let mut since = Instant::now();
        loop {
            std::thread::sleep(std::time::Duration::from_secs(5));
            let cur = PROGRESS.load(Ordering::Relaxed);
            if cur != last {
                last = cur;
                since = Instant::now();
            } else if since.elapsed() > limit {
                if let Some((prop, replay, sig)) = PENDING.lock().ok().and_then(|g| g.clone()) {
                    println!("VIOLATION property={prop} replay={replay}");
                    println!("  signature: {sig}");
                    println!("  | (minimisation stalled for {:?}; this is the input as generated)", limit);
                    std::process::exit(1);
                }
                if VIOLATION_PRINTED.load(Ordering::Relaxed) {
                    println!("watchdog: no progress for {:?} while minimising an already reported violation; exiting with the violation", limit);
                    std::process::exit(1);
                }
                println!("INCONCLUSIVE: no case completed for {:?} (hang in the code under test or in a child); watchdog exit", limit);
                std::process::exit(2);
            }
        }
    });
}

thread_local! {
    pub static LAST_PANIC: std::cell::RefCell<String> = const { std::cell::RefCell::new(String::new()) };
}

pub fn install_quiet_panic_hook() {
    let verbose = std::env::var("VERIF_DEBUG").is_ok();
    let default = std::panic::take_hook();
    std::panic::set_hook(Box::new(move |info| {
        let msg = if let Some(s) = info.payload().downcast_ref::<&str>() {
            s.to_string()
        } else if let Some(s) = info.payload().downcast_ref::<String>() {
            s.clone()
        } else {
            "<non-string panic>".to_string()
        };
        let loc = info.location().map(|l| format!("{}:{}", l.file(), l.line())).unwrap_or_default();
        LAST_PANIC.with(|p| *p.borrow_mut() = format!("{msg} @ {loc}"));
        if verbose {
            default(info);
        }
    }));
}

pub fn panic_message(e: &Box<dyn std::any::Any + Send>) -> String {
    let base = if let Some(s) = e.downcast_ref::<&str>() {
        s.to_string()
    } else if let Some(s) = e.downcast_ref::<String>() {
        s.clone()
    } else {
        "<non-string panic>".to_string()
    };
    let last = LAST_PANIC.with(|p| p.borrow().clone());
    if last.starts_with(&base) { last } else { base }
}

/// Run `f`, turning a panic into Err(message @ location).
pub fn catch<R>(f: impl FnOnce() -> R) -> Result<R, String> {
    std::panic::catch_unwind(std::panic::AssertUnwindSafe(f)).map_err(|e| panic_message(&e))
}

/// Short stable key for a panic message (strip numbers that vary).
pub fn panic_key(msg: &str) -> String {
    let loc = msg.rsplit(" @ ").next().unwrap_or("");
    let file = loc.rsplit('/').next().unwrap_or(loc);
    let head: String = msg.chars().take(60).map(|c| if c.is_ascii_digit() { '#' } else { c }).collect();
    format!("{head}@{file}")
}

fn guarded_check<S: Stage>(stage: &S, inp: &S::Input) -> Outcome {
    PROGRESS.fetch_add(1, Ordering::Relaxed);
    match catch(|| stage.check(inp)) {
        Ok(o) => o,
        Err(msg) => {
            let mut o = Outcome::new(fnv_str(&msg));
            o.fail(format!("panic:{}", panic_key(&msg)), format!("uncaught panic while checking the case: {msg}"));
            o
        }
    }
}
