//! Re-execution of the harness binary as an isolated child process
//! (`vcheck --child`): own environment (EGGLOG_PARALLEL_* are read once per
//! process), own thread pools, crash / deadlock isolation.
//!
//! Protocol: the parent writes one JSON document {"kind": .., "payload": ..} to
//! the child's stdin; the child prints one JSON document on its last stdout line.

use serde_json::{json, Value as J};
use std::io::{Read, Write};
use std::process::{Command, Stdio};
use std::time::{Duration, Instant};

#[derive(Debug, Clone)]
pub enum ChildResult {
    /// child exited 0 and printed a JSON result
    Ok(J),
    /// child died (signal, abort, non-zero exit)
    Crashed { status: String, stderr: String },
    /// watchdog expired and every thread of the child was asleep with no CPU progress: deadlock suspect
    Quiescent { stderr: String },
    /// watchdog expired while the child was still burning CPU: inconclusive
    Busy,
    /// could not start / protocol error
    Broken(String),
}

pub struct ChildJob<'a> {
    pub kind: &'a str,
    pub payload: J,
    pub env: Vec<(String, String)>,
    pub timeout: Duration,
    pub cwd: Option<std::path::PathBuf>,
}

pub fn cpu_ticks(pid: u32) -> Option<(u64, bool)> {
    // sum of utime+stime over all tasks; and whether all tasks are sleeping
    let mut total = 0u64;
    let mut all_sleeping = true;
    let rd = std::fs::read_dir(format!("/proc/{pid}/task")).ok()?;
    for e in rd.flatten() {
        let stat = std::fs::read_to_string(e.path().join("stat")).ok()?;
        let after = stat.rsplit_once(") ")?.1;
        let f: Vec<&str> = after.split_whitespace().collect();
        // f[0]=state, utime=f[11], stime=f[12]
        if f.len() > 12 {
            if f[0] != "S" && f[0] != "D" {
                all_sleeping = false;
            }
            total += f[11].parse::<u64>().unwrap_or(0) + f[12].parse::<u64>().unwrap_or(0);
        }
    }
    Some((total, all_sleeping))
}

pub fn run_child(job: ChildJob) -> ChildResult {
    let exe = match std::env::current_exe() {
        Ok(e) => e,
        Err(e) => return ChildResult::Broken(e.to_string()),
    };
    let mut cmd = Command::new(exe);
    cmd.arg("--child").arg(job.kind).stdin(Stdio::piped()).stdout(Stdio::piped()).stderr(Stdio::piped());
    for (k, v) in &job.env {
        cmd.env(k, v);
    }
    if let Some(d) = &job.cwd {
        cmd.current_dir(d);
    }
    let mut ch = match cmd.spawn() {
        Ok(c) => c,
        Err(e) => return ChildResult::Broken(e.to_string()),
    };
    {
        let mut stdin = ch.stdin.take().unwrap();
        let _ = stdin.write_all(job.payload.to_string().as_bytes());
    }
    let mut stdout = ch.stdout.take().unwrap();
    let mut stderr = ch.stderr.take().unwrap();
    let out_t = std::thread::spawn(move || {
        let mut s = String::new();
        let _ = stdout.read_to_string(&mut s);
        s
    });
    let err_t = std::thread::spawn(move || {
        let mut s = String::new();
        let _ = stderr.read_to_string(&mut s);
        s
    });
    crate::fw::PROGRESS.fetch_add(1, std::sync::atomic::Ordering::Relaxed);
    let start = Instant::now();
    let status = loop {
        match ch.try_wait() {
            Ok(Some(st)) => break Some(st),
            Ok(None) => {}
            Err(e) => return ChildResult::Broken(e.to_string()),
        }
        if start.elapsed() > job.timeout {
            break None;
        }
        std::thread::sleep(Duration::from_millis(if start.elapsed() < Duration::from_millis(200) { 2 } else { 20 }));
    };
    match status {
        Some(st) => {
            let out = out_t.join().unwrap_or_default();
            let err = err_t.join().unwrap_or_default();
            if st.success() {
                match out.lines().rev().find(|l| !l.trim().is_empty()).and_then(|l| serde_json::from_str::<J>(l).ok()) {
                    Some(j) => ChildResult::Ok(j),
                    None => ChildResult::Broken(format!("child printed no JSON; stdout={out:?} stderr={err:?}")),
                }
            } else {
                ChildResult::Crashed { status: format!("{st}"), stderr: err.chars().rev().take(2000).collect::<String>().chars().rev().collect() }
            }
        }
        None => {
            // watchdog: quiescent or busy?
            let pid = ch.id();
            let a = cpu_ticks(pid);
            std::thread::sleep(Duration::from_millis(1500));
            let b = cpu_ticks(pid);
            let quiescent = match (a, b) {
                (Some((ta, sa)), Some((tb, sb))) => sa && sb && ta == tb,
                _ => false,
            };
            let _ = ch.kill();
            let _ = ch.wait();
            let err = err_t.join().unwrap_or_default();
            let _ = out_t.join();
            if quiescent { ChildResult::Quiescent { stderr: err } } else { ChildResult::Busy }
        }
    }
}

pub fn child_main(args: &[String]) -> i32 {
    let kind = args.first().cloned().unwrap_or_default();
    let mut input = String::new();
    if std::io::stdin().read_to_string(&mut input).is_err() {
        return 3;
    }
    let payload: J = match serde_json::from_str(&input) {
        Ok(j) => j,
        Err(e) => {
            eprintln!("child: bad payload: {e}");
            return 3;
        }
    };
    let res: Option<J> = crate::registry::child_dispatch(&kind, &payload);
    match res {
        Some(j) => {
            println!("{}", j);
            0
        }
        None => {
            println!("{}", json!({"error": format!("unknown child kind {kind}")}));
            3
        }
    }
}
