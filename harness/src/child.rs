//! Re-execution of the harness binary as an isolated child process.

pub fn child_main(_args: &[String]) -> i32 {
    2
}
