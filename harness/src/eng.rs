//! Engine-facing helpers: run a command with panic capture, render outputs,
//! and the canonical dump built only on the public read API.

use crate::choice::fnv_str;
use crate::fw::catch;
use egglog::ast::FunctionSubtype;
use egglog::ArcSort;
use egglog::{CommandOutput, EGraph, TermDag, Value};
use std::collections::{BTreeMap, BTreeSet};

#[derive(Clone, Copy, Debug, PartialEq, Eq)]
pub enum ErrKind {
    /// rejected before execution: parse, desugar, type, groundedness, shadowing, unknown name
    Static,
    /// (check ..) did not hold
    Check,
    /// pop without push
    Pop,
    /// failed during execution
    Runtime,
}

#[derive(Clone, Debug, PartialEq, Eq)]
pub enum CmdRes {
    Ok(Vec<String>),
    Err(ErrKind, String),
    Panic(String),
}

pub fn err_kind(e: &egglog::Error) -> ErrKind {
    use egglog::Error as E;
    match e {
        E::ParseError(_)
        | E::NotFoundError(_)
        | E::TypeError(_)
        | E::TypeErrors(_)
        | E::NoSuchRuleset(..)
        | E::CombinedRulesetError(..)
        | E::SubsumeMergeError(..)
        | E::Shadowing(..)
        | E::CommandAlreadyExists(..)
        | E::RuleAlreadyExists(..)
        | E::UnsupportedInputType(..)
        | E::DesugarError(..)
        | E::UnsupportedProofCommand { .. }
        | E::ProofsIncompatibleApi { .. } => ErrKind::Static,
        E::CheckError(..) => ErrKind::Check,
        E::Pop(_) => ErrKind::Pop,
        _ => ErrKind::Runtime,
    }
}

impl CmdRes {
    pub fn is_ok(&self) -> bool {
        matches!(self, CmdRes::Ok(_))
    }
    pub fn kind(&self) -> &'static str {
        match self {
            CmdRes::Ok(_) => "ok",
            CmdRes::Err(..) => "err",
            CmdRes::Panic(_) => "panic",
        }
    }
    pub fn short(&self) -> String {
        match self {
            CmdRes::Ok(o) => format!("ok{:?}", o),
            CmdRes::Err(k, e) => format!("err[{:?}]({})", k, e.lines().last().unwrap_or("")),
            CmdRes::Panic(e) => format!("PANIC({})", e.lines().next().unwrap_or("")),
        }
    }
}

pub fn render_output(o: &CommandOutput) -> String {
    match o {
        CommandOutput::RunSchedule(r) => {
            format!("(run-report updated={})", r.updated)
        }
        CommandOutput::OverallStatistics(_) => "(overall-statistics)".to_string(),
        other => other.to_string(),
    }
}

pub fn run_raw(eg: &mut EGraph, text: &str) -> Result<Result<Vec<CommandOutput>, egglog::Error>, String> {
    catch(|| eg.parse_and_run_program(None, text))
}

pub fn run(eg: &mut EGraph, text: &str) -> CmdRes {
    match run_raw(eg, text) {
        Ok(Ok(outs)) => CmdRes::Ok(outs.iter().map(render_output).collect()),
        Ok(Err(e)) => CmdRes::Err(err_kind(&e), e.to_string()),
        Err(p) => CmdRes::Panic(p),
    }
}

// ---------------------------------------------------------------------------
// Raw dump
// ---------------------------------------------------------------------------

#[derive(Clone, Debug, PartialEq, Eq, PartialOrd, Ord, Hash)]
pub enum Val {
    /// rendered literal
    Base(String),
    /// (sort, raw id, canonical id)
    Class(String, u32, u32),
    /// (sort, kind, raw container id, elements)
    Cont(String, String, u32, Vec<Val>),
    /// output column of a relation (fresh, meaningless id)
    RelOut,
}

#[derive(Clone, Debug)]
pub struct RawRow {
    pub vals: Vec<Val>,
    pub subsumed: bool,
}

#[derive(Clone, Debug, PartialEq, Eq)]
pub enum TableKind {
    Constructor,
    Relation,
    Function,
}

#[derive(Clone, Debug)]
pub struct RawTable {
    pub name: String,
    pub kind: TableKind,
    pub hidden: bool,
    pub is_let: bool,
    pub in_sorts: Vec<String>,
    pub out_sort: String,
    pub rows: Vec<RawRow>,
    /// read error from the name-indexed API, if any
    pub read_error: Option<String>,
}

#[derive(Clone, Debug, Default)]
pub struct RawDump {
    pub tables: Vec<RawTable>,
}

fn class_rep(s: &str) -> u32 {
    s.rsplit_once('-').and_then(|(_, b)| b.parse().ok()).unwrap_or(u32::MAX)
}

fn sort_kind(sort: &ArcSort) -> String {
    let d = format!("{:?}", sort);
    let kinds = ["MultiSetSort", "VecSort", "SetSort", "MapSort", "PairSort", "FunctionSort"];
    let mut best: Option<(usize, &str)> = None;
    for k in kinds {
        if let Some(i) = d.find(k) {
            if best.map(|(j, _)| i < j).unwrap_or(true) {
                best = Some((i, k));
            }
        }
    }
    match best {
        Some((_, k)) => k.to_string(),
        None => d.split(|c: char| !c.is_alphanumeric()).next().unwrap_or("").to_string(),
    }
}

pub fn is_relation_sort(name: &str) -> bool {
    name.starts_with('@') && name.contains("Sort")
}

pub fn decode_val(eg: &EGraph, sort: &ArcSort, v: Value, depth: usize) -> Val {
    use egglog_numeric_id::NumericId;
    if sort.is_eq_sort() {
        if is_relation_sort(sort.name()) {
            return Val::RelOut;
        }
        let canon = class_rep(&eg.value_to_class_id(sort, v).to_string());
        Val::Class(sort.name().to_string(), v.rep(), canon)
    } else if sort.is_container_sort() {
        if depth > 8 {
            return Val::Base("<deep>".into());
        }
        let inner: Vec<(ArcSort, Value)> = eg.read(|rs| {
            use egglog::Core;
            sort.inner_values(rs.container_values(), v)
        });
        let elems = inner.iter().map(|(s, x)| decode_val(eg, s, *x, depth + 1)).collect();
        Val::Cont(sort.name().to_string(), sort_kind(sort), v.rep(), elems)
    } else {
        let s = eg.read(|rs| {
            use egglog::Core;
            let mut td = TermDag::default();
            let id = sort.reconstruct_termdag_base(rs.base_values(), v, &mut td);
            td.to_string(id)
        });
        Val::Base(s)
    }
}

pub fn raw_dump(eg: &EGraph) -> RawDump {
    let mut tables = vec![];
    let funcs: Vec<(String, egglog::Function)> = eg.functions_iter().map(|(n, f)| (n.clone(), f.clone())).collect();
    for (name, f) in funcs {
        let ft = f.func_type();
        let mut sorts: Vec<ArcSort> = ft.input.clone();
        sorts.push(ft.output.clone());
        let is_ctor = ft.subtype == FunctionSubtype::Constructor;
        let kind = if is_ctor {
            if is_relation_sort(ft.output.name()) { TableKind::Relation } else { TableKind::Constructor }
        } else {
            TableKind::Function
        };
        let mut raw: Vec<(Vec<Value>, bool)> = vec![];
        let res = if is_ctor {
            eg.constructor_enodes(&name, |e| {
                let mut v = e.children.to_vec();
                v.push(e.eclass);
                raw.push((v, e.subsumed));
            })
        } else {
            eg.function_entries(&name, |e| {
                let mut v = e.inputs.to_vec();
                v.push(e.output);
                raw.push((v, e.subsumed));
            })
        };
        let rows = raw
            .into_iter()
            .map(|(vals, subsumed)| RawRow {
                vals: vals.iter().zip(sorts.iter()).map(|(v, s)| decode_val(eg, s, *v, 0)).collect(),
                subsumed,
            })
            .collect();
        tables.push(RawTable {
            name,
            kind,
            hidden: f.is_hidden(),
            is_let: f.is_let_binding(),
            in_sorts: ft.input.iter().map(|s| s.name().to_string()).collect(),
            out_sort: ft.output.name().to_string(),
            rows,
            read_error: res.err().map(|e| e.to_string()),
        });
    }
    RawDump { tables }
}

// ---------------------------------------------------------------------------
// Canonical (id-free) dump
// ---------------------------------------------------------------------------

type ClassKey = (String, u32);

fn collect_classes(v: &Val, out: &mut BTreeSet<ClassKey>) {
    match v {
        Val::Class(s, _, c) => {
            out.insert((s.clone(), *c));
        }
        Val::Cont(_, _, _, es) => es.iter().for_each(|e| collect_classes(e, out)),
        _ => {}
    }
}

fn shorten(s: String) -> String {
    if s.len() > 300 { format!("#{:016x}", fnv_str(&s)) } else { s }
}

pub struct Namer {
    pub names: BTreeMap<ClassKey, (usize, String)>,
}

impl Namer {
    /// name of a value, None if some class in it is not (yet) named
    pub fn name(&self, v: &Val) -> Option<(usize, String)> {
        match v {
            Val::Base(s) => Some((1, s.clone())),
            Val::RelOut => Some((0, "()".into())),
            Val::Class(s, _, c) => self.names.get(&(s.clone(), *c)).cloned(),
            Val::Cont(_, kind, _, es) => {
                let mut parts = vec![];
                let mut size = 1;
                for e in es {
                    let (n, s) = self.name(e)?;
                    size += n;
                    parts.push(s);
                }
                match kind.as_str() {
                    "SetSort" | "MultiSetSort" => parts.sort(),
                    "MapSort" => {
                        let mut pairs: Vec<String> = parts.chunks(2).map(|c| c.join("=>")).collect();
                        pairs.sort();
                        parts = pairs;
                    }
                    _ => {}
                }
                let head = match kind.as_str() {
                    "VecSort" => "vec-of",
                    "SetSort" => "set-of",
                    "MultiSetSort" => "multiset-of",
                    other => other,
                };
                let text = if matches!(kind.as_str(), "VecSort" | "SetSort" | "MultiSetSort") {
                    if parts.is_empty() { format!("({head})") } else { format!("({head} {})", parts.join(" ")) }
                } else {
                    format!("[{} {}]", kind.trim_end_matches("Sort"), parts.join(" "))
                };
                Some((size, shorten(text)))
            }
        }
    }
}

/// Least-term naming of every class mentioned in the dump, by the harness's
/// own fixpoint over all constructor rows (independent of extract.rs).
pub fn name_classes(d: &RawDump) -> Namer {
    let mut all = BTreeSet::new();
    for t in &d.tables {
        for r in &t.rows {
            for v in &r.vals {
                collect_classes(v, &mut all);
            }
        }
    }
    let mut namer = Namer { names: BTreeMap::new() };
    // Phase 1: minimal term size per class (unique least fixpoint, independent of any text).
    fn val_size(v: &Val, sizes: &BTreeMap<ClassKey, usize>) -> Option<usize> {
        match v {
            Val::Base(_) => Some(1),
            Val::RelOut => Some(0),
            Val::Class(s, _, c) => sizes.get(&(s.clone(), *c)).copied(),
            Val::Cont(_, _, _, es) => {
                let mut n = 1usize;
                for e in es {
                    n += val_size(e, sizes)?;
                }
                Some(n)
            }
        }
    }
    let mut sizes: BTreeMap<ClassKey, usize> = BTreeMap::new();
    loop {
        let mut changed = false;
        for t in &d.tables {
            if t.kind != TableKind::Constructor {
                continue;
            }
            for r in &t.rows {
                let (out, ins) = r.vals.split_last().unwrap();
                let Val::Class(s, _, c) = out else { continue };
                let mut size = 1usize;
                let mut ok = true;
                for v in ins {
                    match val_size(v, &sizes) {
                        Some(n) => size += n,
                        None => {
                            ok = false;
                            break;
                        }
                    }
                }
                if !ok {
                    continue;
                }
                let key = (s.clone(), *c);
                match sizes.get(&key) {
                    Some(cur) if *cur <= size => {}
                    _ => {
                        sizes.insert(key, size);
                        changed = true;
                    }
                }
            }
        }
        if !changed {
            break;
        }
    }
    // Phase 2: names in order of increasing size. A minimal-size row only has children of strictly smaller
    // size, whose final names are already fixed, so the result does not depend on row or table order.
    let mut by_size: Vec<(usize, ClassKey)> = sizes.iter().map(|(k, n)| (*n, k.clone())).collect();
    by_size.sort();
    let mut rows_of: BTreeMap<ClassKey, Vec<(&RawTable, &RawRow)>> = BTreeMap::new();
    for t in &d.tables {
        if t.kind != TableKind::Constructor {
            continue;
        }
        for r in &t.rows {
            if let Some(Val::Class(s, _, c)) = r.vals.last() {
                rows_of.entry((s.clone(), *c)).or_default().push((t, r));
            }
        }
    }
    for (size, key) in by_size {
        let mut best: Option<String> = None;
        for (t, r) in rows_of.get(&key).map(|v| v.as_slice()).unwrap_or(&[]) {
            let ins = &r.vals[..r.vals.len() - 1];
            let mut total = 1usize;
            let mut parts = vec![];
            let mut ok = true;
            for v in ins {
                match (val_size(v, &sizes), namer.name(v)) {
                    (Some(n), Some((_, s))) => {
                        total += n;
                        parts.push(s);
                    }
                    _ => {
                        ok = false;
                        break;
                    }
                }
            }
            if !ok || total != size {
                continue;
            }
            let text = shorten(if parts.is_empty() { format!("({})", t.name) } else { format!("({} {})", t.name, parts.join(" ")) });
            if best.as_ref().map(|b| text < *b).unwrap_or(true) {
                best = Some(text);
            }
        }
        if let Some(b) = best {
            namer.names.insert(key, (size, b));
        }
    }
    // orphans: classes with no term. Name by colour refinement over occurrences.
    let orphans: Vec<ClassKey> = all.iter().filter(|k| !namer.names.contains_key(*k)).cloned().collect();
    if !orphans.is_empty() {
        let mut colour: BTreeMap<ClassKey, u64> = orphans.iter().map(|k| (k.clone(), fnv_str(&k.0))).collect();
        for _round in 0..3 {
            let mut occ: BTreeMap<ClassKey, Vec<u64>> = BTreeMap::new();
            for t in &d.tables {
                for r in &t.rows {
                    let mut here = BTreeSet::new();
                    for v in &r.vals {
                        collect_classes(v, &mut here);
                    }
                    for k in here.iter().filter(|k| colour.contains_key(*k)) {
                        // render the row with k marked and other orphans by colour
                        let txt: Vec<String> = r.vals.iter().map(|v| render_with(v, &namer, &colour, Some(k))).collect();
                        occ.entry(k.clone()).or_default().push(fnv_str(&format!("{}|{}|{}", t.name, txt.join(","), r.subsumed)));
                    }
                }
            }
            let mut next = BTreeMap::new();
            for (k, c) in &colour {
                let mut o = occ.remove(k).unwrap_or_default();
                o.sort();
                let mut h = *c;
                for x in o {
                    h = crate::choice::mix(h, x);
                }
                next.insert(k.clone(), h);
            }
            colour = next;
        }
        for (k, c) in colour {
            namer.names.insert(k.clone(), (1_000_000, format!("?{}:{:016x}", k.0, c)));
        }
    }
    namer
}

fn render_with(v: &Val, namer: &Namer, colour: &BTreeMap<ClassKey, u64>, mark: Option<&ClassKey>) -> String {
    match v {
        Val::Class(s, _, c) => {
            let k = (s.clone(), *c);
            if Some(&k) == mark {
                "SELF".into()
            } else if let Some(col) = colour.get(&k) {
                format!("?{:x}", col)
            } else {
                namer.names.get(&k).map(|x| x.1.clone()).unwrap_or_else(|| "??".into())
            }
        }
        Val::Cont(_, kind, _, es) => {
            let mut parts: Vec<String> = es.iter().map(|e| render_with(e, namer, colour, mark)).collect();
            if kind == "SetSort" || kind == "MultiSetSort" {
                parts.sort();
            }
            format!("[{} {}]", kind, parts.join(" "))
        }
        Val::Base(s) => s.clone(),
        Val::RelOut => "()".into(),
    }
}

#[derive(Clone, Debug, PartialEq, Eq, Default)]
pub struct CanonDump {
    /// table name -> sorted rendered rows
    pub tables: BTreeMap<String, Vec<String>>,
}

pub struct CanonOpts {
    pub include_hidden: bool,
    pub include_subsumed_flag: bool,
}

impl Default for CanonOpts {
    fn default() -> Self {
        CanonOpts { include_hidden: false, include_subsumed_flag: true }
    }
}

pub fn canon_from_raw(d: &RawDump, opts: &CanonOpts) -> CanonDump {
    let namer = name_classes(d);
    let mut tables = BTreeMap::new();
    for t in &d.tables {
        if t.hidden && !opts.include_hidden {
            continue;
        }
        if t.name.starts_with('@') && !opts.include_hidden {
            continue;
        }
        let mut rows: Vec<String> = t
            .rows
            .iter()
            .map(|r| {
                let (out, ins) = r.vals.split_last().unwrap();
                let ins: Vec<String> = ins.iter().map(|v| namer.name(v).map(|x| x.1).unwrap_or_else(|| "??".into())).collect();
                let o = namer.name(out).map(|x| x.1).unwrap_or_else(|| "??".into());
                let flag = if r.subsumed && opts.include_subsumed_flag { " [subsumed]" } else { "" };
                format!("({}) -> {}{}", ins.join(" "), o, flag)
            })
            .collect();
        rows.sort();
        if let Some(e) = &t.read_error {
            rows.push(format!("<<unreadable: {e}>>"));
        }
        tables.insert(t.name.clone(), rows);
    }
    CanonDump { tables }
}

pub fn canon_dump(eg: &EGraph) -> CanonDump {
    canon_from_raw(&raw_dump(eg), &CanonOpts::default())
}

impl CanonDump {
    pub fn diff(&self, other: &CanonDump) -> String {
        let mut out = String::new();
        let names: BTreeSet<&String> = self.tables.keys().chain(other.tables.keys()).collect();
        for n in names {
            let a: BTreeSet<&String> = self.tables.get(n).map(|v| v.iter().collect()).unwrap_or_default();
            let b: BTreeSet<&String> = other.tables.get(n).map(|v| v.iter().collect()).unwrap_or_default();
            let la = self.tables.get(n).map(|v| v.len()).unwrap_or(0);
            let lb = other.tables.get(n).map(|v| v.len()).unwrap_or(0);
            if a != b || la != lb {
                out.push_str(&format!("table {n}: left {la} rows, right {lb} rows\n"));
                for r in a.difference(&b).take(8) {
                    out.push_str(&format!("  only left : {r}\n"));
                }
                for r in b.difference(&a).take(8) {
                    out.push_str(&format!("  only right: {r}\n"));
                }
            }
        }
        out
    }
    pub fn total_rows(&self) -> usize {
        self.tables.values().map(|v| v.len()).sum()
    }
    pub fn hash(&self) -> u64 {
        let mut h = 0u64;
        for (k, v) in &self.tables {
            h = crate::choice::mix(h, fnv_str(k));
            for r in v {
                h = crate::choice::mix(h, fnv_str(r));
            }
        }
        h
    }
}

// ---------------------------------------------------------------------------
// pattern queries through the public EGraph::query API
// ---------------------------------------------------------------------------

/// Run `EGraph::query` for the body `facts_text` (egglog fact syntax), returning for every
/// match the decoded values of `vars` (name, sort name) in order.
pub fn query(eg: &mut EGraph, vars: &[(String, String)], facts_text: &str) -> Result<Vec<Vec<Val>>, String> {
    let cmds = eg.parse_program(None, &format!("(check {facts_text})")).map_err(|e| e.to_string())?;
    let facts = match cmds.into_iter().next() {
        Some(egglog::ast::Command::Check(_, facts)) => egglog::ast::Facts(facts),
        _ => return Err("could not build facts".into()),
    };
    let mut sorts: Vec<(String, ArcSort)> = vec![];
    for (v, s) in vars {
        let sort = eg.get_sort_by_name(s).cloned().ok_or_else(|| format!("no sort {s}"))?;
        sorts.push((v.clone(), sort));
    }
    let vs: Vec<(&str, ArcSort)> = sorts.iter().map(|(v, s)| (v.as_str(), s.clone())).collect();
    let res = match catch(|| eg.query(&vs, facts)) {
        Ok(Ok(r)) => r,
        Ok(Err(e)) => return Err(e.to_string()),
        Err(p) => return Err(format!("PANIC {p}")),
    };
    let mut out = vec![];
    for m in res {
        let mut row = vec![];
        for (v, s) in &sorts {
            let val = *m.get(v).ok_or_else(|| format!("match lacks var {v}"))?;
            row.push(decode_val(eg, s, val, 0));
        }
        out.push(row);
    }
    Ok(out)
}
