//! Validity predicate over the raw (id-carrying) dump: the database is
//! canonical and consistent (C04; reused by C14 and C18).

use crate::eng::{raw_dump, RawDump, TableKind, Val};
use egglog::{EGraph, SerializeConfig};
use std::collections::{BTreeMap, BTreeSet};

pub struct InvViolation {
    pub sig: String,
    pub detail: String,
}

fn key_raw(v: &Val) -> String {
    match v {
        Val::Base(s) => format!("b:{s}"),
        Val::Class(s, raw, _) => format!("c:{s}:{raw}"),
        Val::Cont(s, _, raw, _) => format!("k:{s}:{raw}"),
        Val::RelOut => "()".into(),
    }
}

/// structural key modulo canonicalisation (class -> canonical id, containers by contents)
fn key_canon(v: &Val) -> String {
    match v {
        Val::Base(s) => format!("b:{s}"),
        Val::Class(s, _, c) => format!("c:{s}:{c}"),
        Val::Cont(s, kind, _, es) => {
            let mut parts: Vec<String> = es.iter().map(key_canon).collect();
            match kind.as_str() {
                "SetSort" | "MultiSetSort" => parts.sort(),
                "MapSort" => {
                    let mut pairs: Vec<String> = parts.chunks(2).map(|c| c.join("=>")).collect();
                    pairs.sort();
                    parts = pairs;
                }
                _ => {}
            }
            format!("k:{s}[{}]", parts.join(","))
        }
        Val::RelOut => "()".into(),
    }
}

fn walk<'a>(v: &'a Val, f: &mut dyn FnMut(&'a Val)) {
    f(v);
    if let Val::Cont(_, _, _, es) = v {
        for e in es {
            walk(e, f);
        }
    }
}

pub fn check_raw(d: &RawDump) -> Option<InvViolation> {
    // (d) equal container contents share one id; one id has one content
    let mut by_content: BTreeMap<String, u32> = BTreeMap::new();
    for t in &d.tables {
        if let Some(e) = &t.read_error {
            return Some(InvViolation { sig: "table-unreadable".into(), detail: format!("table {}: read API failed: {e}", t.name) });
        }
        // (a) one row per key (raw)
        let mut seen_raw: BTreeSet<String> = BTreeSet::new();
        // (c) no two congruent rows (keys equal modulo canonicalisation)
        let mut seen_canon: BTreeMap<String, String> = BTreeMap::new();
        for r in &t.rows {
            let (out, ins) = r.vals.split_last().unwrap();
            let kr = ins.iter().map(key_raw).collect::<Vec<_>>().join("|");
            if !seen_raw.insert(kr.clone()) {
                return Some(InvViolation { sig: "duplicate-key".into(), detail: format!("table {}: two rows with the same key {kr}", t.name) });
            }
            let kc = ins.iter().map(key_canon).collect::<Vec<_>>().join("|");
            let oc = key_canon(out);
            if let Some(prev) = seen_canon.insert(kc.clone(), oc.clone()) {
                return Some(InvViolation {
                    sig: "congruent-rows-not-merged".into(),
                    detail: format!("table {}: two rows whose keys are equal modulo the recorded equalities ({kc}); outputs {prev} and {oc}", t.name),
                });
            }
            // (b) every stored eq-sort id is canonical
            for v in &r.vals {
                let mut bad: Option<String> = None;
                walk(v, &mut |x| {
                    if let Val::Class(s, raw, canon) = x {
                        if raw != canon && bad.is_none() {
                            bad = Some(format!("{s}-{raw} (canonical representative is {s}-{canon})"));
                        }
                    }
                });
                if let Some(b) = bad {
                    let row: Vec<String> = r.vals.iter().map(key_raw).collect();
                    return Some(InvViolation {
                        sig: "noncanonical-id-stored".into(),
                        detail: format!("table {} ({:?}) row [{}] stores the non-canonical e-class id {b}", t.name, t.kind, row.join(" ")),
                    });
                }
                let mut dup: Option<String> = None;
                walk(v, &mut |x| {
                    if let Val::Cont(s, _, raw, _) = x {
                        let k = key_canon(x);
                        match by_content.get(&k) {
                            Some(prev) if prev != raw && dup.is_none() => {
                                dup = Some(format!("container sort {s}: ids {prev} and {raw} have equal contents {k}"));
                            }
                            None => {
                                by_content.insert(k, *raw);
                            }
                            _ => {}
                        }
                    }
                });
                if let Some(dp) = dup {
                    return Some(InvViolation { sig: "equal-containers-distinct-ids".into(), detail: dp });
                }
            }
            let _ = TableKind::Function;
        }
    }
    None
}

/// (e) the serialised e-graph and the read API describe the same rows
pub fn check_serialize(eg: &EGraph, d: &RawDump) -> Option<InvViolation> {
    let ser = match crate::fw::catch(|| eg.serialize(SerializeConfig::default())) {
        Ok(s) => s,
        Err(p) => return Some(InvViolation { sig: "serialize-panic".into(), detail: format!("EGraph::serialize panicked: {p}") }),
    };
    if !ser.is_complete() {
        return Some(InvViolation { sig: "serialize-incomplete".into(), detail: ser.omitted_description() });
    }
    let g = &ser.egraph;
    for t in &d.tables {
        if t.is_let {
            continue;
        }
        // temporary / hidden functions may be omitted by default config: only compare when present
        let count = g.nodes.iter().filter(|(id, n)| n.op == t.name && id.to_string().starts_with("function-")).count();
        if count != t.rows.len() {
            if t.hidden || t.name.starts_with('@') {
                continue;
            }
            return Some(InvViolation {
                sig: "serialize-row-count".into(),
                detail: format!("table {}: read API sees {} rows, serialize() has {} nodes", t.name, t.rows.len(), count),
            });
        }
        for (i, r) in t.rows.iter().enumerate() {
            let nid: egraph_serialize_id::NodeId = format!("function-{i}-{}", t.name).into();
            let Some(n) = g.nodes.get(&nid) else {
                return Some(InvViolation { sig: "serialize-node-missing".into(), detail: format!("no node {nid} for row {i} of {}", t.name) });
            };
            let (out, ins) = r.vals.split_last().unwrap();
            if let Val::Class(s, _, c) = out {
                let want = format!("{s}-{c}");
                if n.eclass.to_string() != want {
                    return Some(InvViolation {
                        sig: "serialize-class-differs".into(),
                        detail: format!("row {i} of {}: read API says class {want}, serialize() says {}", t.name, n.eclass),
                    });
                }
            }
            if n.subsumed != r.subsumed {
                return Some(InvViolation { sig: "serialize-subsumed-differs".into(), detail: format!("row {i} of {}: subsumed flag differs", t.name) });
            }
            if n.children.len() != ins.len() {
                return Some(InvViolation { sig: "serialize-arity-differs".into(), detail: format!("row {i} of {}: child count differs", t.name) });
            }
            for (cv, cid) in ins.iter().zip(n.children.iter()) {
                if let Val::Class(s, _, c) = cv {
                    let want = format!("{s}-{c}");
                    let got = g.nodes.get(cid).map(|x| x.eclass.to_string()).unwrap_or_default();
                    if got != want {
                        return Some(InvViolation {
                            sig: "serialize-child-class-differs".into(),
                            detail: format!("row {i} of {}: child class per read API {want}, per serialize() {got}", t.name),
                        });
                    }
                }
            }
        }
    }
    None
}

pub fn check_all(eg: &EGraph) -> Option<InvViolation> {
    let d = match crate::fw::catch(|| raw_dump(eg)) {
        Ok(d) => d,
        Err(p) => return Some(InvViolation { sig: "dump-panic".into(), detail: format!("reading the database through the public read API panicked: {p}") }),
    };
    if let Some(v) = check_raw(&d) {
        return Some(v);
    }
    check_serialize(eg, &d)
}

mod egraph_serialize_id {
    pub use egraph_serialize::NodeId;
}
