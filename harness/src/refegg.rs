//! Deliberately naive reference interpreter for the monotone fragment
//! (+ subsumption, delete, containers). No indexes, no timestamps, no
//! incremental anything: congruence closure by re-canonicalising every row until
//! fixpoint; one iteration = all substitutions of every rule body against the
//! snapshot by nested loops, then all actions, then rebuild.

use crate::eng::{RawDump, RawRow, RawTable, TableKind, Val};
use crate::prog::*;
use std::collections::{BTreeMap, BTreeSet};

#[derive(Clone, Debug, PartialEq, Eq, PartialOrd, Ord, Hash)]
pub enum V {
    I(i64),
    B(bool),
    C(usize),
    Unit,
    Vec(Vec<V>),
    Set(BTreeSet<V>),
    MSet(BTreeMap<V, usize>),
}

#[derive(Clone, Debug, PartialEq, Eq)]
pub struct Row {
    pub out: V,
    pub subsumed: bool,
}

#[derive(Clone, Debug, PartialEq, Eq)]
pub struct State {
    pub parent: Vec<usize>,
    pub class_sort: Vec<usize>,
    pub tables: Vec<BTreeMap<Vec<V>, Row>>,
}

#[derive(Clone, Debug)]
pub struct RuleM {
    pub body: Vec<Fact>,
    pub head: Vec<Action>,
    pub ruleset: Option<usize>,
}

#[derive(Debug, Clone)]
pub enum Stop {
    /// the model refuses to decide this case (too big, overflow, outside fragment)
    Discard(String),
    /// the command is an error in the model too (e.g. pop without push)
    Error(String),
}

pub type MRes<T> = Result<T, Stop>;

pub struct Limits {
    pub max_rows: usize,
    pub max_matches: usize,
    pub max_saturate_iters: usize,
}

impl Default for Limits {
    fn default() -> Self {
        Limits { max_rows: 1500, max_matches: 60_000, max_saturate_iters: 60 }
    }
}

pub struct Model {
    pub sig: Sig,
    pub st: State,
    pub rules: Vec<RuleM>,
    pub stack: Vec<(State, Vec<RuleM>)>,
    pub limits: Limits,
    // statistics for non-triviality
    pub congruence_merges: usize,
    pub rule_unions: usize,
    pub rebuild_passes_max: usize,
    pub fd_merges: usize,
    pub matches_total: usize,
    pub iterations_changed: usize,
    pub subsumed_touched: usize,
    pub container_changed: usize,
    /// within one iteration: rows looked up / written, and rows deleted (conflicts are order-dependent => discard)
    iter_touched: BTreeSet<(usize, Vec<V>)>,
    iter_deleted: BTreeSet<(usize, Vec<V>)>,
}

#[derive(Clone, Debug, PartialEq, Eq)]
pub enum PT {
    Var(String),
    Const(V),
}

#[derive(Clone, Debug)]
struct Atom {
    f: usize,
    args: Vec<PT>,
    out: PT,
}

#[derive(Clone, Debug)]
struct PrimC {
    op: String,
    args: Vec<PT>,
    out: Option<PT>,
}

#[derive(Clone, Debug, Default)]
struct Flat {
    atoms: Vec<Atom>,
    prims: Vec<PrimC>,
    eqs: Vec<(PT, PT)>,
    fresh: usize,
    /// a ground sub-term of the body is not represented: no match possible
    dead: bool,
}

pub type Subst = BTreeMap<String, V>;

impl State {
    pub fn find(&self, mut x: usize) -> usize {
        while self.parent[x] != x {
            x = self.parent[x];
        }
        x
    }
    fn union(&mut self, a: usize, b: usize) -> bool {
        let (a, b) = (self.find(a), self.find(b));
        if a == b {
            return false;
        }
        let (lo, hi) = if a < b { (a, b) } else { (b, a) };
        self.parent[hi] = lo;
        true
    }
    fn fresh(&mut self, sort: usize) -> usize {
        self.parent.push(self.parent.len());
        self.class_sort.push(sort);
        self.parent.len() - 1
    }
    pub fn canon(&self, v: &V) -> V {
        match v {
            V::C(c) => V::C(self.find(*c)),
            V::Vec(xs) => V::Vec(xs.iter().map(|x| self.canon(x)).collect()),
            V::Set(xs) => V::Set(xs.iter().map(|x| self.canon(x)).collect()),
            V::MSet(xs) => {
                let mut m = BTreeMap::new();
                for (k, n) in xs {
                    *m.entry(self.canon(k)).or_insert(0) += *n;
                }
                V::MSet(m)
            }
            other => other.clone(),
        }
    }
    pub fn total_rows(&self) -> usize {
        self.tables.iter().map(|t| t.len()).sum()
    }
}

pub fn merge_vals(m: Merge, old: &V, new: &V) -> V {
    match (m, old, new) {
        (Merge::Min | Merge::MinNested, V::I(a), V::I(b)) => V::I(*a.min(b)),
        (Merge::Max | Merge::MaxNested, V::I(a), V::I(b)) => V::I(*a.max(b)),
        (Merge::Or, V::B(a), V::B(b)) => V::B(*a || *b),
        (Merge::And, V::B(a), V::B(b)) => V::B(*a && *b),
        _ => old.clone(),
    }
}

impl Model {
    pub fn new(sig: &Sig) -> Self {
        Model {
            sig: sig.clone(),
            st: State { parent: vec![], class_sort: vec![], tables: vec![BTreeMap::new(); sig.funcs.len()] },
            rules: vec![],
            stack: vec![],
            limits: Limits::default(),
            congruence_merges: 0,
            rule_unions: 0,
            rebuild_passes_max: 0,
            fd_merges: 0,
            matches_total: 0,
            iterations_changed: 0,
            subsumed_touched: 0,
            container_changed: 0,
            iter_touched: BTreeSet::new(),
            iter_deleted: BTreeSet::new(),
        }
    }

    // ---------------- rebuild (congruence closure by definition) -------------

    pub fn rebuild(&mut self) -> MRes<()> {
        let mut passes = 0;
        loop {
            passes += 1;
            let mut unions: Vec<(usize, usize)> = vec![];
            for fi in 0..self.sig.funcs.len() {
                let decl = self.sig.funcs[fi].clone();
                let old = std::mem::take(&mut self.st.tables[fi]);
                let mut new: BTreeMap<Vec<V>, Row> = BTreeMap::new();
                for (k, r) in old {
                    let ck: Vec<V> = k.iter().map(|v| self.st.canon(v)).collect();
                    if ck != k && k.iter().any(|v| !matches!(v, V::C(_) | V::I(_) | V::B(_) | V::Unit)) {
                        self.container_changed += 1;
                    }
                    let cr = Row { out: self.st.canon(&r.out), subsumed: r.subsumed };
                    match new.get_mut(&ck) {
                        None => {
                            new.insert(ck, cr);
                        }
                        Some(ex) => {
                            if ex.subsumed != cr.subsumed || ex.subsumed {
                                self.subsumed_touched += 1;
                            }
                            ex.subsumed |= cr.subsumed;
                            match &decl.kind {
                                FKind::Ctor { .. } => {
                                    if let (V::C(a), V::C(b)) = (&ex.out, &cr.out) {
                                        if a != b {
                                            unions.push((*a, *b));
                                        }
                                    }
                                }
                                FKind::Rel => {}
                                FKind::Func { merge } => {
                                    if *merge == Merge::NoMerge {
                                        if ex.out != cr.out {
                                            return Err(Stop::Error("no-merge conflict".into()));
                                        }
                                    } else {
                                        self.fd_merges += 1;
                                        ex.out = merge_vals(*merge, &ex.out, &cr.out);
                                    }
                                }
                            }
                        }
                    }
                }
                self.st.tables[fi] = new;
            }
            let mut any = false;
            for (a, b) in unions {
                if self.st.union(a, b) {
                    self.congruence_merges += 1;
                    any = true;
                }
            }
            if !any {
                // one more canonicalisation pass is needed only if a union happened
                break;
            }
            if passes > 10_000 {
                return Err(Stop::Discard("rebuild does not converge".into()));
            }
        }
        self.rebuild_passes_max = self.rebuild_passes_max.max(passes);
        Ok(())
    }

    // ---------------- ground evaluation (no creation) ------------------------

    /// Evaluate a ground term against the tables; None if some sub-term is not represented.
    pub fn eval_ground(&self, t: &Term) -> Option<V> {
        match t {
            Term::Var(_) => None,
            Term::I(i) => Some(V::I(*i)),
            Term::B(b) => Some(V::B(*b)),
            Term::App(f, args) => {
                let mut k = vec![];
                for a in args {
                    k.push(self.st.canon(&self.eval_ground(a)?));
                }
                self.st.tables[*f].get(&k).map(|r| self.st.canon(&r.out))
            }
            Term::Prim(op, args) => {
                let mut vs = vec![];
                for a in args {
                    vs.push(self.eval_ground(a)?);
                }
                self.prim(op, &vs, None).ok().flatten()
            }
        }
    }

    // ---------------- primitives ---------------------------------------------

    /// Ok(None) = primitive failed (no match / error in action)
    pub fn prim(&self, op: &str, a: &[V], _cont_hint: Option<usize>) -> MRes<Option<V>> {
        use V::*;
        let r = match (op, a) {
            ("+", [I(x), I(y)]) => x.checked_add(*y).map(I),
            ("-", [I(x), I(y)]) => x.checked_sub(*y).map(I),
            ("*", [I(x), I(y)]) => x.checked_mul(*y).map(I),
            ("min", [I(x), I(y)]) => Some(I(*x.min(y))),
            ("max", [I(x), I(y)]) => Some(I(*x.max(y))),
            ("<", [I(x), I(y)]) => (x < y).then_some(Unit),
            ("<=", [I(x), I(y)]) => (x <= y).then_some(Unit),
            (">", [I(x), I(y)]) => (x > y).then_some(Unit),
            (">=", [I(x), I(y)]) => (x >= y).then_some(Unit),
            ("!=", [x, y]) => (x != y).then_some(Unit),
            ("and", [B(x), B(y)]) => Some(B(*x && *y)),
            ("or", [B(x), B(y)]) => Some(B(*x || *y)),
            ("not", [B(x)]) => Some(B(!*x)),
            ("vec-of", xs) => Some(Vec(xs.to_vec())),
            ("vec-empty", []) => Some(Vec(vec![])),
            ("set-of", xs) => Some(Set(xs.iter().cloned().collect())),
            ("set-empty", []) => Some(Set(BTreeSet::new())),
            ("multiset-of", xs) => {
                let mut m = BTreeMap::new();
                for x in xs {
                    *m.entry(x.clone()).or_insert(0) += 1;
                }
                Some(MSet(m))
            }
            ("vec-push", [Vec(xs), x]) => {
                let mut v = xs.clone();
                v.push(x.clone());
                Some(Vec(v))
            }
            ("vec-length", [Vec(xs)]) => Some(I(xs.len() as i64)),
            ("vec-get", [Vec(xs), I(i)]) => {
                if *i >= 0 && (*i as usize) < xs.len() { Some(xs[*i as usize].clone()) } else { None }
            }
            ("vec-contains", [Vec(xs), x]) => xs.contains(x).then_some(Unit),
            ("vec-not-contains", [Vec(xs), x]) => (!xs.contains(x)).then_some(Unit),
            ("set-insert", [Set(xs), x]) => {
                let mut v = xs.clone();
                v.insert(x.clone());
                Some(Set(v))
            }
            ("set-length", [Set(xs)]) => Some(I(xs.len() as i64)),
            ("set-contains", [Set(xs), x]) => xs.contains(x).then_some(Unit),
            ("set-not-contains", [Set(xs), x]) => (!xs.contains(x)).then_some(Unit),
            ("set-union", [Set(xs), Set(ys)]) => Some(Set(xs.union(ys).cloned().collect())),
            ("multiset-insert", [MSet(xs), x]) => {
                let mut v = xs.clone();
                *v.entry(x.clone()).or_insert(0) += 1;
                Some(MSet(v))
            }
            ("multiset-length", [MSet(xs)]) => Some(I(xs.values().sum::<usize>() as i64)),
            ("multiset-contains", [MSet(xs), x]) => xs.contains_key(x).then_some(Unit),
            _ => return Err(Stop::Discard(format!("model: unsupported primitive {op}/{}", a.len()))),
        };
        Ok(r)
    }

    /// static type of a term, used to tag container values with their sort
    pub fn ty_of(&self, t: &Term, env: &BTreeMap<String, Ty>) -> Option<Ty> {
        match t {
            Term::Var(v) => env.get(v).cloned(),
            Term::I(_) => Some(Ty::I64),
            Term::B(_) => Some(Ty::Bool),
            Term::App(f, _) => Some(self.sig.funcs[*f].out.clone()),
            Term::Prim(_, _) => None,
        }
    }

    // ---------------- flattening & matching -----------------------------------

    fn flatten_term(&self, t: &Term, fl: &mut Flat, want: Option<&Ty>) -> PT {
        match t {
            Term::Var(v) => PT::Var(v.clone()),
            Term::I(i) => PT::Const(V::I(*i)),
            Term::B(b) => PT::Const(V::B(*b)),
            Term::App(f, args) => {
                let decl = &self.sig.funcs[*f];
                let a: Vec<PT> = args.iter().zip(decl.args.iter()).map(|(x, ty)| self.flatten_term(x, fl, Some(ty))).collect();
                fl.fresh += 1;
                let out = PT::Var(format!("@f{}", fl.fresh));
                fl.atoms.push(Atom { f: *f, args: a, out: out.clone() });
                out
            }
            Term::Prim(op, args) => {
                // element type hint for container constructors
                let elem_ty = match want {
                    Some(Ty::Cont(c)) => Some(self.sig.conts[*c].elem.clone()),
                    _ => None,
                };
                let a: Vec<PT> = args.iter().map(|x| self.flatten_term(x, fl, elem_ty.as_ref())).collect();
                fl.fresh += 1;
                let out = PT::Var(format!("@p{}", fl.fresh));
                let tagged = match want {
                    Some(Ty::Cont(c)) => format!("{op}#{c}"),
                    _ => op.clone(),
                };
                fl.prims.push(PrimC { op: tagged, args: a, out: Some(out.clone()) });
                out
            }
        }
    }

    fn flatten(&self, body: &[Fact]) -> Flat {
        let mut fl = Flat::default();
        for f in body {
            match f {
                Fact::T(Term::App(fi, args)) => {
                    let decl = &self.sig.funcs[*fi];
                    let a: Vec<PT> = args.iter().zip(decl.args.iter()).map(|(x, ty)| self.flatten_term(x, &mut fl, Some(ty))).collect();
                    fl.fresh += 1;
                    let out = PT::Var(format!("@o{}", fl.fresh));
                    fl.atoms.push(Atom { f: *fi, args: a, out });
                }
                Fact::T(Term::Prim(op, args)) => {
                    let a: Vec<PT> = args.iter().map(|x| self.flatten_term(x, &mut fl, None)).collect();
                    fl.prims.push(PrimC { op: op.clone(), args: a, out: None });
                }
                Fact::T(_) => {
                    fl.dead = true;
                }
                Fact::Eq(a, b) => {
                    // type hint from the other side when one side is a container literal
                    let pa = self.flatten_term(a, &mut fl, None);
                    let pb = self.flatten_term(b, &mut fl, None);
                    fl.eqs.push((pa, pb));
                }
            }
        }
        fl
    }

    fn pt_val(&self, p: &PT, s: &Subst) -> Option<V> {
        match p {
            PT::Const(v) => Some(v.clone()),
            PT::Var(x) => s.get(x).cloned(),
        }
    }

    fn unify(&self, p: &PT, v: &V, s: &mut Subst) -> bool {
        match p {
            PT::Const(c) => c == v,
            PT::Var(x) => match s.get(x) {
                Some(cur) => cur == v,
                None => {
                    s.insert(x.clone(), v.clone());
                    true
                }
            },
        }
    }

    fn search(&self, fl: &Flat, i: usize, s: &mut Subst, include_subsumed: bool, out: &mut Vec<Subst>, budget: &mut usize) -> MRes<()> {
        if *budget == 0 {
            return Err(Stop::Discard("match budget exhausted".into()));
        }
        if i == fl.atoms.len() {
            // eqs and prims to fixpoint
            let mut s2 = s.clone();
            let mut pend_eq: Vec<&(PT, PT)> = fl.eqs.iter().collect();
            let mut pend_pr: Vec<&PrimC> = fl.prims.iter().collect();
            loop {
                let mut progress = false;
                let mut next_eq = vec![];
                for e in pend_eq {
                    let (a, b) = (self.pt_val(&e.0, &s2), self.pt_val(&e.1, &s2));
                    match (a, b) {
                        (Some(x), Some(y)) => {
                            if x != y {
                                return Ok(());
                            }
                            progress = true;
                        }
                        (Some(x), None) => {
                            if !self.unify(&e.1, &x, &mut s2) {
                                return Ok(());
                            }
                            progress = true;
                        }
                        (None, Some(y)) => {
                            if !self.unify(&e.0, &y, &mut s2) {
                                return Ok(());
                            }
                            progress = true;
                        }
                        (None, None) => next_eq.push(e),
                    }
                }
                pend_eq = next_eq;
                let mut next_pr = vec![];
                for p in pend_pr {
                    let args: Option<Vec<V>> = p.args.iter().map(|a| self.pt_val(a, &s2)).collect();
                    match args {
                        Some(a) => {
                            let (op, hint) = match p.op.split_once('#') {
                                Some((o, c)) => (o, c.parse::<usize>().ok()),
                                None => (p.op.as_str(), None),
                            };
                            match self.prim(op, &a, hint)? {
                                None => return Ok(()),
                                Some(v) => {
                                    let v = self.retag(v, &p.out, &s2);
                                    if let Some(o) = &p.out {
                                        if !self.unify_loose(o, &v, &mut s2) {
                                            return Ok(());
                                        }
                                    }
                                }
                            }
                            progress = true;
                        }
                        None => next_pr.push(p),
                    }
                }
                pend_pr = next_pr;
                if pend_eq.is_empty() && pend_pr.is_empty() {
                    break;
                }
                if !progress {
                    return Err(Stop::Discard("ungrounded body in model".into()));
                }
            }
            *budget -= 1;
            out.push(s2);
            return Ok(());
        }
        let atom = &fl.atoms[i];
        for (k, r) in &self.st.tables[atom.f] {
            if r.subsumed && !include_subsumed {
                continue;
            }
            if *budget == 0 {
                return Err(Stop::Discard("match budget exhausted".into()));
            }
            *budget -= 1;
            let mut s2 = s.clone();
            let mut ok = true;
            for (p, v) in atom.args.iter().zip(k.iter()) {
                if !self.unify_loose(p, v, &mut s2) {
                    ok = false;
                    break;
                }
            }
            if ok && self.unify_loose(&atom.out, &r.out, &mut s2) {
                self.search(fl, i + 1, &mut s2, include_subsumed, out, budget)?;
            }
        }
        Ok(())
    }

    /// container values carry a sort tag; a literal built without a hint has tag MAX: compare loosely
    fn unify_loose(&self, p: &PT, v: &V, s: &mut Subst) -> bool {
        match p {
            PT::Const(c) => loose_eq(c, v),
            PT::Var(x) => match s.get(x) {
                Some(cur) => loose_eq(cur, v),
                None => {
                    s.insert(x.clone(), v.clone());
                    true
                }
            },
        }
    }

    fn retag(&self, v: V, _out: &Option<PT>, _s: &Subst) -> V {
        v
    }

    pub fn matches(&self, body: &[Fact], include_subsumed: bool) -> MRes<Vec<Subst>> {
        let fl = self.flatten(body);
        if fl.dead {
            return Ok(vec![]);
        }
        let mut out = vec![];
        let mut budget = self.limits.max_matches;
        self.search(&fl, 0, &mut Subst::new(), include_subsumed, &mut out, &mut budget)?;
        out.sort();
        out.dedup();
        Ok(out)
    }

    pub fn check(&self, facts: &[Fact]) -> MRes<bool> {
        Ok(!self.matches(facts, true)?.is_empty())
    }

    // ---------------- actions --------------------------------------------------

    fn eval_action_term(&mut self, t: &Term, s: &Subst, want: Option<&Ty>) -> MRes<V> {
        match t {
            Term::Var(v) => s.get(v).cloned().ok_or_else(|| Stop::Discard(format!("unbound var {v} in action"))),
            Term::I(i) => Ok(V::I(*i)),
            Term::B(b) => Ok(V::B(*b)),
            Term::App(f, args) => {
                let decl = self.sig.funcs[*f].clone();
                let mut k = vec![];
                for (a, ty) in args.iter().zip(decl.args.iter()) {
                    let v = self.eval_action_term(a, s, Some(ty))?;
                    k.push(v);
                }
                self.iter_touched.insert((*f, k.clone()));
                match &decl.kind {
                    FKind::Ctor { .. } => {
                        if let Some(r) = self.st.tables[*f].get(&k) {
                            return Ok(r.out.clone());
                        }
                        let Ty::Eq(sort) = decl.out else { return Err(Stop::Discard("ctor with non-eq output".into())) };
                        let id = self.st.fresh(sort);
                        self.st.tables[*f].insert(k, Row { out: V::C(id), subsumed: false });
                        Ok(V::C(id))
                    }
                    FKind::Rel => {
                        self.st.tables[*f].entry(k).or_insert(Row { out: V::Unit, subsumed: false });
                        Ok(V::Unit)
                    }
                    FKind::Func { .. } => Err(Stop::Discard("function lookup in action".into())),
                }
            }
            Term::Prim(op, args) => {
                let elem_ty = match want {
                    Some(Ty::Cont(c)) => Some(self.sig.conts[*c].elem.clone()),
                    _ => None,
                };
                let mut vs = vec![];
                for a in args {
                    vs.push(self.eval_action_term(a, s, elem_ty.as_ref())?);
                }
                let hint = match want {
                    Some(Ty::Cont(c)) => Some(*c),
                    _ => None,
                };
                match self.prim(op, &vs, hint)? {
                    Some(v) => Ok(v),
                    None => Err(Stop::Error(format!("primitive {op} failed in action"))),
                }
            }
        }
    }

    pub fn apply_action(&mut self, a: &Action, s: &Subst, from_rule: bool) -> MRes<()> {
        match a {
            Action::Expr(t) => {
                self.eval_action_term(t, s, None)?;
            }
            Action::Union(x, y) => {
                let vx = self.eval_action_term(x, s, None)?;
                let vy = self.eval_action_term(y, s, None)?;
                match (vx, vy) {
                    (V::C(p), V::C(q)) => {
                        if self.st.union(p, q) && from_rule {
                            self.rule_unions += 1;
                        }
                    }
                    _ => return Err(Stop::Discard("union of non-class values".into())),
                }
            }
            Action::Set(f, args, v) => {
                let decl = self.sig.funcs[*f].clone();
                let mut k = vec![];
                for (a, ty) in args.iter().zip(decl.args.iter()) {
                    let x = self.eval_action_term(a, s, Some(ty))?;
                    k.push(x);
                }
                let val = self.eval_action_term(v, s, Some(&decl.out))?;
                self.iter_touched.insert((*f, k.clone()));
                let FKind::Func { merge } = decl.kind else { return Err(Stop::Discard("set on non-function".into())) };
                match self.st.tables[*f].get_mut(&k) {
                    None => {
                        self.st.tables[*f].insert(k, Row { out: val, subsumed: false });
                    }
                    Some(r) => {
                        if merge == Merge::NoMerge {
                            if r.out != val {
                                return Err(Stop::Error("no-merge conflict".into()));
                            }
                        } else {
                            if r.out != val {
                                self.fd_merges += 1;
                            }
                            r.out = merge_vals(merge, &r.out, &val);
                        }
                    }
                }
            }
            Action::Subsume(f, args) => {
                let decl = self.sig.funcs[*f].clone();
                let mut k = vec![];
                for (a, ty) in args.iter().zip(decl.args.iter()) {
                    let x = self.eval_action_term(a, s, Some(ty))?;
                    k.push(x);
                }
                self.iter_touched.insert((*f, k.clone()));
                match self.st.tables[*f].get_mut(&k) {
                    Some(r) => r.subsumed = true,
                    None => {
                        // insert-if-absent as subsumed
                        let out = match decl.out {
                            Ty::Eq(sort) if decl.is_ctor() => V::C(self.st.fresh(sort)),
                            _ if decl.is_rel() => V::Unit,
                            _ => return Err(Stop::Discard("subsume on absent function row".into())),
                        };
                        self.st.tables[*f].insert(k, Row { out, subsumed: true });
                    }
                }
            }
            Action::Delete(f, args) => {
                let decl = self.sig.funcs[*f].clone();
                let mut k = vec![];
                for (a, ty) in args.iter().zip(decl.args.iter()) {
                    let x = self.eval_action_term(a, s, Some(ty))?;
                    k.push(x);
                }
                self.iter_deleted.insert((*f, k.clone()));
                self.st.tables[*f].remove(&k);
            }
            Action::Panic(m) => return Err(Stop::Error(format!("panic {m}"))),
        }
        Ok(())
    }

    // ---------------- rules & schedules ------------------------------------------

    pub fn add_rule(&mut self, body: &[Fact], head: &[Action], ruleset: Option<usize>) {
        self.rules.push(RuleM { body: body.to_vec(), head: head.to_vec(), ruleset });
    }

    fn ruleset_members(&self, rs: Option<usize>) -> Vec<Option<usize>> {
        match rs {
            None => vec![None],
            Some(i) if i < self.sig.rulesets.len() => vec![Some(i)],
            Some(i) => {
                let mut out = vec![];
                for m in &self.sig.combined[i - self.sig.rulesets.len()].1 {
                    out.extend(self.ruleset_members(Some(*m)));
                }
                out
            }
        }
    }

    /// one iteration of a ruleset; returns whether the state changed
    pub fn step(&mut self, rs: Option<usize>) -> MRes<bool> {
        let members = self.ruleset_members(rs);
        let before = self.st.clone();
        self.iter_touched.clear();
        self.iter_deleted.clear();
        let mut all: Vec<(usize, Vec<Subst>)> = vec![];
        for (ri, r) in self.rules.iter().enumerate() {
            if !members.contains(&r.ruleset) {
                continue;
            }
            let ms = self.matches(&r.body, false)?;
            self.matches_total += ms.len();
            all.push((ri, ms));
        }
        for (ri, ms) in all {
            let head = self.rules[ri].head.clone();
            for s in ms {
                for a in &head {
                    self.apply_action(a, &s, true)?;
                }
            }
            if self.st.total_rows() > self.limits.max_rows {
                return Err(Stop::Discard("model state too large".into()));
            }
        }
        self.rebuild()?;
        if !self.iter_deleted.is_empty() {
            let canon = |m: &Model, set: &BTreeSet<(usize, Vec<V>)>| -> BTreeSet<(usize, Vec<V>)> {
                set.iter().map(|(f, k)| (*f, k.iter().map(|v| m.st.canon(v)).collect())).collect()
            };
            let t = canon(self, &self.iter_touched);
            let d = canon(self, &self.iter_deleted);
            if t.intersection(&d).next().is_some() {
                return Err(Stop::Discard("delete conflicts with a lookup/write of the same row in one iteration (order-dependent)".into()));
            }
        }
        if self.st.total_rows() > self.limits.max_rows {
            return Err(Stop::Discard("model state too large".into()));
        }
        let changed = !self.same_state(&before);
        if changed {
            self.iterations_changed += 1;
        }
        Ok(changed)
    }

    fn same_state(&self, before: &State) -> bool {
        // class ids are stable inside the model, so literal comparison modulo find
        if before.tables.len() != self.st.tables.len() || before.parent.len() != self.st.parent.len() {
            return false;
        }
        for i in 0..before.parent.len() {
            if (before.find(i) == i) != (self.st.find(i) == i) {
                return false;
            }
        }
        before.tables == self.st.tables
    }

    pub fn run_sched(&mut self, s: &Sched) -> MRes<bool> {
        match s {
            Sched::Run { rs, until } => {
                if !until.is_empty() && self.check(until)? {
                    return Ok(false);
                }
                self.step(*rs)
            }
            Sched::Repeat(n, ss) => {
                let mut any = false;
                for _ in 0..*n {
                    let mut upd = false;
                    for s in ss {
                        upd |= self.run_sched(s)?;
                    }
                    any |= upd;
                    if !upd {
                        break;
                    }
                }
                Ok(any)
            }
            Sched::Saturate(ss) => {
                let mut any = false;
                let mut iters = 0;
                loop {
                    iters += 1;
                    if iters > self.limits.max_saturate_iters {
                        return Err(Stop::Discard("saturate did not converge within the model's bound".into()));
                    }
                    let mut upd = false;
                    for s in ss {
                        upd |= self.run_sched(s)?;
                    }
                    any |= upd;
                    if !upd {
                        break;
                    }
                }
                Ok(any)
            }
            Sched::Seq(ss) => {
                let mut any = false;
                for s in ss {
                    any |= self.run_sched(s)?;
                }
                Ok(any)
            }
        }
    }

    pub fn desugar_rewrite(lhs: &Term, rhs: &Term, when: &[Fact], subsume: bool) -> (Vec<Fact>, Vec<Action>) {
        let v = Term::Var("@rw".into());
        let mut body = vec![Fact::Eq(v.clone(), lhs.clone())];
        body.extend(when.iter().cloned());
        let mut head = vec![Action::Union(v, rhs.clone())];
        if subsume {
            if let Term::App(f, args) = lhs {
                head.push(Action::Subsume(*f, args.clone()));
            }
        }
        (body, head)
    }

    /// Apply one command. Ok(Some(b)) for check results.
    pub fn apply(&mut self, c: &Cmd) -> MRes<Option<bool>> {
        match c {
            Cmd::Act(a) => {
                let snapshot = self.st.clone();
                let r = self.apply_action(a, &Subst::new(), false).and_then(|_| self.rebuild());
                if let Err(Stop::Error(_)) = &r {
                    // a failing top-level action: what remains is engine-defined; the
                    // model keeps the state before the command (callers in the monotone
                    // fragment never get here)
                    self.st = snapshot;
                }
                r?;
                Ok(None)
            }
            Cmd::Rule { body, head, opts } => {
                self.add_rule(body, head, opts.ruleset);
                Ok(None)
            }
            Cmd::Rewrite { lhs, rhs, when, subsume, bi, ruleset } => {
                let (b, h) = Self::desugar_rewrite(lhs, rhs, when, *subsume);
                self.add_rule(&b, &h, *ruleset);
                if *bi {
                    let (b, h) = Self::desugar_rewrite(rhs, lhs, when, *subsume);
                    self.add_rule(&b, &h, *ruleset);
                }
                Ok(None)
            }
            Cmd::RunN { rs, n, until } => {
                self.run_sched(&Sched::Repeat(*n, vec![Sched::Run { rs: *rs, until: until.clone() }]))?;
                Ok(None)
            }
            Cmd::Sched(s) => {
                self.run_sched(s)?;
                Ok(None)
            }
            Cmd::Check(fs) => Ok(Some(self.check(fs)?)),
            Cmd::Extract(..) | Cmd::PrintSize(_) | Cmd::PrintFunction(..) => Ok(None),
            Cmd::Push => {
                self.stack.push((self.st.clone(), self.rules.clone()));
                Ok(None)
            }
            Cmd::Pop => match self.stack.pop() {
                Some((st, rules)) => {
                    self.st = st;
                    self.rules = rules;
                    Ok(None)
                }
                None => Err(Stop::Error("pop without push".into())),
            },
            Cmd::Raw(_) => Err(Stop::Discard("raw command".into())),
        }
    }

    // ---------------- export as a raw dump (for the shared canonicaliser) -----------

    fn val_of(&self, v: &V) -> Val {
        match v {
            V::I(i) => Val::Base(i.to_string()),
            V::B(b) => Val::Base(b.to_string()),
            V::Unit => Val::RelOut,
            V::C(c) => {
                let r = self.st.find(*c);
                Val::Class(self.sig.sorts[self.st.class_sort[r]].clone(), *c as u32, r as u32)
            }
            V::Vec(xs) => Val::Cont(String::new(), "VecSort".into(), 0, xs.iter().map(|x| self.val_of(x)).collect()),
            V::Set(xs) => Val::Cont(String::new(), "SetSort".into(), 0, xs.iter().map(|x| self.val_of(x)).collect()),
            V::MSet(xs) => {
                let mut es = vec![];
                for (k, n) in xs {
                    for _ in 0..*n {
                        es.push(self.val_of(k));
                    }
                }
                Val::Cont(String::new(), "MultiSetSort".into(), 0, es)
            }
        }
    }

    fn cont_name(&self, s: usize) -> String {
        self.sig.conts.get(s).map(|c| c.name.clone()).unwrap_or_else(|| "?".into())
    }

    pub fn raw_dump(&self) -> RawDump {
        let mut tables = vec![];
        for (fi, decl) in self.sig.funcs.iter().enumerate() {
            let kind = match decl.kind {
                FKind::Ctor { .. } => TableKind::Constructor,
                FKind::Rel => TableKind::Relation,
                FKind::Func { .. } => TableKind::Function,
            };
            let rows = self.st.tables[fi]
                .iter()
                .map(|(k, r)| {
                    let mut vals: Vec<Val> = k.iter().map(|v| self.val_of(v)).collect();
                    vals.push(self.val_of(&r.out));
                    RawRow { vals, subsumed: r.subsumed }
                })
                .collect();
            tables.push(RawTable {
                name: decl.name.clone(),
                kind,
                hidden: false,
                is_let: false,
                in_sorts: decl.args.iter().map(|t| self.sig.ty_name(t)).collect(),
                out_sort: self.sig.ty_name(&decl.out),
                rows,
                read_error: None,
            });
        }
        RawDump { tables }
    }
}

pub fn loose_eq(a: &V, b: &V) -> bool {
    a == b
}
