#!/usr/bin/env python3
"""Regenerate /verif/MANIFEST.json from the table below (keeps it valid at all times)."""
import json, os, sys
ROOT = os.path.dirname(os.path.dirname(os.path.abspath(__file__)))

# id -> (technique, level text, level note, design ref)
CLAIMED = {
 "C01": ("model-based property testing: generated histories run in lockstep against a naive reference interpreter (congruence closure by definition), canonical-dump isomorphism after every command + check/extract probes on clones; proptest generation/shrinking + command-level delta debugging",
         "Generated-input search with an explicit reference model; every command prefix compared both directions (nothing invented, nothing missed). Sampled, depth/size bounded: not a proof.",
         "Trusts the reference interpreter (harness/src/refegg.rs) and the canonical dump built on the public read API; terms not represented are outside the claim.",
         "DESIGN.md 4/C01"),
 "C03": ("differential property testing: generated monotone histories on a semi-naive and a naive engine, canonical dumps compared after every command and every single iteration; reference interpreter as third opinion; repo .egg corpus as extra seed programs (child processes)",
         "Generated-input search with a differential oracle (the property is itself an equivalence between two configurations) observed at every iteration boundary; plus model comparison so a shared error is visible on the reference fragment.",
         "Trusts the canonical dump (isomorphism up to class renaming); corpus files are filtered to the monotone fragment by a conservative textual test.",
         "DESIGN.md 4/C03"),
 "C13": ("model-based property testing: histories with subsume/delete/unions/re-insertions/push-pop in lockstep with a reference interpreter carrying a sticky subsumed bit; query/check/extract probes on clones",
         "Generated histories against an explicit model, compared after every command; both directions (flag never dropped, never invented; deleted rows gone, nothing else changed).",
         "Trusts refegg.rs; iterations in which a delete and a lookup/write of the same row coincide are order-dependent and discarded (counted); delete-containing programs run the engine with semi-naive off because they are not monotone.",
         "DESIGN.md 4/C13"),
 "C14": ("model-based + differential property testing: container programs (Vec/Set/MultiSet over eq-sorts, nested) in lockstep with the reference interpreter and semi-naive vs naive per iteration; generator includes the in-place-rebuild shapes (container literal patterns, collapsing wrappers)",
         "Generated histories against model and against the naive configuration after every command/iteration.",
         "Trusts refegg.rs container semantics (structural re-canonicalisation); Map/Pair not generated yet (Map key collisions are outside the claim).",
         "DESIGN.md 4/C14"),
}

PENDING_REASON = "check not built yet in this round (work in progress; see DESIGN.md section 8 for the build order)"

def main():
    props = [json.loads(l) for l in open(os.path.join(ROOT, "properties.jsonl"))]
    hooks_file = os.path.join(ROOT, "tools", "hooks.json")
    hooks = json.load(open(hooks_file)) if os.path.exists(hooks_file) else {"source_commits": []}
    checks = []
    na = []
    for p in props:
        pid = p["id"]
        if pid in CLAIMED:
            tech, text, note, ref = CLAIMED[pid]
            checks.append({
                "property_id": pid,
                "quick_cmd": f"./check {pid} --tier quick",
                "thorough_cmd": f"./check {pid} --tier thorough",
                "evidence_file": f"/verif/evidence/{pid}.json",
                "replay_cmd_template": f"./check {pid} --replay {{path}}",
                "engine": "vcheck",
                "level_claimed": {"category": "exploration", "text": text, "design_ref": ref},
                "level_note": note,
                "technique": tech,
            })
        else:
            na.append({"property_id": pid, "reason": PENDING_REASON})
    m = {
        "version": 1,
        "setup_cmd": "cd /verif/harness && CARGO_NET_OFFLINE=true cargo build --release",
        "hooks": {
            "guard": "cargo feature `verif-hooks`",
            "enable": "the harness crate (/verif/harness/Cargo.toml) path-depends on /repo's crates; hook code, where present, is compiled only with the cargo feature verif-hooks which only the harness enables",
            "baseline_off_cmd": "cd /repo && cargo nextest run --workspace --no-fail-fast --test-threads 8 --offline || cargo test --workspace --no-fail-fast --offline",
            "source_commits": hooks.get("source_commits", []),
            "add_only": True,
        },
        "engines": [
            {"name": "vcheck", "path": "/verif/harness", "serves_properties": sorted(CLAIMED.keys()),
             "kind_free_text": "Rust harness: proptest-driven choice-stream generators, reference interpreter, canonical dump, differential/metamorphic/model-based oracles, shrinking to replay files"},
        ],
        "checks": checks,
        "not_applicable": na,
        "notes": "All checks: ./check <ID> [--tier quick|thorough] [--replay FILE]; VERIF_SEED selects the proptest seed. exit 0 held, 1 VIOLATION, 2 inconclusive. Known findings: /verif/known-findings.jsonl.",
    }
    json.dump(m, open(os.path.join(ROOT, "MANIFEST.json"), "w"), indent=1)
    print(f"claimed {len(checks)}, not_applicable {len(na)}")

if __name__ == "__main__":
    main()
