#!/usr/bin/env python3
"""Regenerate /verif/MANIFEST.json from the table below (keeps it valid at all times)."""
import json, os, sys
ROOT = os.path.dirname(os.path.dirname(os.path.abspath(__file__)))

# id -> (technique, level text, level note, design ref)
CLAIMED = {
 "C01": ("model-based property testing: generated histories run in lockstep against a naive reference interpreter (congruence closure by definition), canonical-dump isomorphism after every command + check/extract probes on clones; proptest generation/shrinking + command-level delta debugging",
         "Generated-input search with an explicit reference model; every command prefix compared both directions (nothing invented, nothing missed). Sampled, depth/size bounded: not a proof.",
         "Trusts the reference interpreter (harness/src/refegg.rs) and the canonical dump built on the public read API; terms not represented are outside the claim.",
         "DESIGN.md 4/C01"),
 "C03": ("differential property testing: generated monotone histories on a semi-naive and a naive engine, canonical dumps compared after every command and every single iteration; reference interpreter as third opinion; repo .egg corpus as extra seed programs (child processes)",
         "Generated-input search with a differential oracle (the property is itself an equivalence between two configurations) observed at every iteration boundary; plus model comparison so a shared error is visible on the reference fragment.",
         "Trusts the canonical dump (isomorphism up to class renaming); corpus files are filtered to the monotone fragment by a conservative textual test.",
         "DESIGN.md 4/C03"),
 "C13": ("model-based property testing: histories with subsume/delete/unions/re-insertions/push-pop in lockstep with a reference interpreter carrying a sticky subsumed bit; query/check/extract probes on clones",
         "Generated histories against an explicit model, compared after every command; both directions (flag never dropped, never invented; deleted rows gone, nothing else changed).",
         "Trusts refegg.rs; iterations in which a delete and a lookup/write of the same row coincide are order-dependent and discarded (counted); delete-containing programs run the engine with semi-naive off because they are not monotone.",
         "DESIGN.md 4/C13"),
 "C14": ("model-based + differential property testing: container programs (Vec/Set/MultiSet over eq-sorts, nested) in lockstep with the reference interpreter and semi-naive vs naive per iteration; generator includes the in-place-rebuild shapes (container literal patterns, collapsing wrappers)",
         "Generated histories against model and against the naive configuration after every command/iteration.",
         "Trusts refegg.rs container semantics (structural re-canonicalisation); Map/Pair not generated yet (Map key collisions are outside the claim).",
         "DESIGN.md 4/C14"),
 "C04": ("property-based testing with injected faults: generated histories incl. commands failing at run time (rule panic beside union rules, :no-merge conflicts, failing primitives/lookups); validity predicate over the raw id-carrying dump after EVERY command (key uniqueness, canonical ids incl. inside containers, no congruent rows, container hash-consing, serialize() = read API, visibility probes on clones) The same invariants are also evaluated on large states (C14's many-containers stage: >1000 containers; C01's large-table stage: >10 000 rows) so that the incremental, index-driven rebuild paths are the ones exercised.",
         "Generated histories x fault positions with an invariant oracle evaluated after every single command, failed or not.",
         "Trusts the public read API (functions_iter, constructor_enodes, function_entries, value_to_class_id, container inner_values) as the observation of the stored rows.",
         "DESIGN.md 4/C04"),
 "C05": ("property-based testing against a fold oracle: generated write multisets / permutations / batchings (per command, one rule iteration via a relation, EGraph::update batches) / key-collapsing unions; expected = fold of the ACI merge per final key class; every case also in child processes with threads x EGGLOG_PARALLEL_*_CUTOFF=0; :no-merge conflict stage",
         "Generated cases with an exact algebraic oracle, executed under serial and forced-parallel insertion paths.",
         "Merge expressions are ACI by construction; child processes are needed because the parallel cut-offs are read once per process.",
         "DESIGN.md 4/C05"),
 "C10": ("metamorphic + reference-execution property testing: at every schedule command the schedule is interpreted by its textbook definition with step_rules/check on a clone (change decided by dump comparison), compared with the native run and with law-equivalent variants on further clones; saturate idempotence; updated-flag consistency; lockstep with the reference model (combined rulesets)",
         "Generated programs x schedule expressions with a definitional oracle and algebraic-law variants.",
         "Programs with delete are outside (removals do not count as updates by design); saturate only over closed rules so every schedule terminates.",
         "DESIGN.md 4/C10"),
 "C16": ("model-based (stateful) property testing: generated operation sequences over Database / SortedWritesTable / DisplacedTable (stage insert/remove, merge_all, clear, clone, rebuild, compaction) against a BTreeMap model, every read compared after every op (get_row, scans, refine with every constraint kind, fast_subset, rule-set queries as index-backed reads)",
         "Operation sequences against an explicit map model with comparison at every step.",
         "Sort-column values are generated monotonically and one timestamp per merge batch, as every real caller does; estimate_size only sanity-checked.",
         "DESIGN.md 4/C16"),
 "C19": ("seeded scenario generation + stress in child processes: spawn trees (nested scopes >64 deep, panics, blocking waits) with per-node execution counters, ReadOptimizedLock torn-read/overlap canaries, ConcurrentVec / ParallelVecWriter / NotificationList / ResettableOnceLock presence-and-integrity oracles, watchdog-based deadlock detection",
         "Generated scenarios with exact post-conditions; interleavings are sampled (repetitions), not enumerated.",
         "Cannot own the OS scheduler: stress + perturbation, no exhaustive interleaving coverage; deadlock = quiescent unfinished child.",
         "DESIGN.md 4/C19"),
 "C20": ("differential property testing across processes: each generated feature-rich program (and each .egg corpus file) is run twice in-process and in two more processes with different environment / cwd / address-space layout; outputs, error strings, run reports (durations zeroed) and final dump compared byte for byte Directed stages: container rows rewritten in place by a union, and churn-join (bulk load, more than half deleted so the table compacts before its first index, then joined and printed).",
         "Generated programs with a repeat-execution differential oracle.",
         "Timings and print-stats text excluded as the property states.",
         "DESIGN.md 4/C20"),
 "C02": ("property-based testing against a nested-loop reference evaluator: random schema + skewed database + one conjunctive body of a chosen hypergraph shape (chain/star/cycle/clique/random) with decorations; Out table compared exactly under default / :no-decomp / EGraph.no_decomp / :naive / seminaive off, and with EGraph::query as a set Bodies include existential atoms (all variables local and absent from the head) and half-local atoms, besides the shapes whose head uses every variable.",
         "Generated (query, database) pairs with an independent naive evaluator as oracle, across the planner configurations reachable from the language.",
         "Body size <= ~8 atoms, arity <= 4, tables <= 200 rows; PlanStrategy variants only reachable through the core-relations API are covered by C16's rule-set queries, not here.",
         "DESIGN.md 4/C02"),
 "C06": ("differential property testing across configurations in child processes: generated monotone programs and corpus files under threads {1,2,3,4,8,16} x cut-off profiles (all 0 / mixed / default) x fork depth x action batch x tasks-per-thread, each compared with the single-threaded run (Ok/Err, check outcomes, sizes, extraction costs, canonical dump)",
         "Generated programs x configuration matrix with a differential oracle; OS schedules sampled by repetition.",
         "Interleavings are sampled, not enumerated; children are needed because cut-offs are read once per process.",
         "DESIGN.md 4/C06"),
 "C07": ("property-based testing with an independent optimality oracle: generated e-graphs (cycles, zero costs, ties, costs near i64::MAX, containers, subsumed/unextractable/deleted nodes); every class extracted; membership by re-evaluation through the raw dump, legality of each node, reported cost = saturating tree cost = least fixpoint of the cost equations, failure iff no legal term, variants counted and distinct-rooted",
         "Generated e-graphs x every root class against an independently computed least fixpoint.",
         "Default tree-additive cost model only; one known finding (panic under saturated costs) is tolerated by signature and re-demonstrated by a regression case.",
         "DESIGN.md 4/C07"),
 "C17": ("bounded-exhaustive enumeration + model-based random sequences + seeded concurrent scenarios: all op sequences up to a bound for the sequential and (single-threaded) concurrent union-find against a partition model; random long sequences; multi-threaded histories with sound necessary linearizability conditions and complete Wing-Gong search for tiny histories, in child processes with a deadlock watchdog",
         "Exhaustive for small bounds (evidence marks which stage), generated beyond; concurrency sampled.",
         "union's returned parent under concurrency is only required to be a smaller member (a concurrent link may displace it); no schedule-perturbation hooks inside the repo code.",
         "DESIGN.md 4/C17"),
 "C11": ("differential (translation-validation style) property testing: every generated program accepted by program_supports_proofs runs on the plain engine, under the term encoding and with proofs, compared per command (Ok/Err + stable snapshot: check outcomes, extraction costs, sizes); the desugared encoded program is printed and re-run on a plain engine; corpus files too",
         "Generated source programs through three modes plus print-reparse-run; divergences are triaged to root-cause signatures.",
         "Six triaged divergences of the encoder are recorded as known findings (each with a minimal regression program) and their triggers are excluded from the main stage by construction; a second stage keeps all features on and tolerates exactly those signatures.",
         "DESIGN.md 4/C11"),
 "C12": ("property-based testing with an independent proof walker and mutation of proofs/programs: prove <=> plain check on generated facts (true/false, ground/variable, conjunctions), never a panic; independent shape check of the returned proof through the public API; through the verif-hooks entry points the in-tree checker must reject the proof against the checking program minus a used rule/union and reject structurally mutated proofs (Trans, Congr, Rule, Fiat mutations incl. forged congruences)",
         "Generated programs x facts x single-point alterations; both directions of the checker (accepts what prove returns, rejects unjustified steps).",
         "Needs the additive cargo feature verif-hooks (check_proof is pub(crate)); only locally evident mutations are used; no subsumption in this fragment (prove does not see subsumed rows).",
         "DESIGN.md 4/C12"),
 "C18": ("model-based property testing of scheduler steps: generated closed/generative programs x scheduler policies (all, none-then-all, bit-string subsets, one-at-a-time, back-off) with writes between steps; offers compared with the reference nested-loop matcher, chosen matches applied on a reference engine, choose-all vs step_rules, fair drain vs built-in saturation, database invariants after every step, behaviour after Err steps",
         "Generated programs x policies x interleaved writes with per-step oracles.",
         "Only what the scheduler API promises is asserted (no order, no absence of duplicate offers).",
         "DESIGN.md 4/C18"),
 "C08": ("metamorphic property testing: generated (P,Q,R) triples with declarations, failing commands and nested push/pop inside Q and re-declarations / name-indexed API calls in R: P;push;Q;pop;R vs P;R on independent engines after every command; clone stage: Q on the original, R on the clone in a generated interleaving, each against an independent fresh run",
         "Generated histories with a metamorphic oracle (outputs, error kinds, canonical dumps, API summaries, one iteration of every ruleset on throw-away clones).",
         "The run report and fresh-symbol numbering are excluded (pop documents that it keeps them); state that lives only between stage and merge inside one command is C16's business.",
         "DESIGN.md 4/C08"),
 "C09": ("property-based testing + byte-level mutation fuzzing (proptest-driven): typed ill-formed mutations from a 72-entry catalogue inserted at every position of generated sessions (plain / term / proof mode) with a no-effect oracle (results + canonical dump + corrected-twin behaviour equal to the session without the bad command); mutated corpus bytes on fresh and long-lived e-graphs; run-time failure sessions; REPL protocol; deep-nesting probes in child processes",
         "Generated sessions x fault catalogue x positions; panics caught in-process, aborts isolated in children.",
         "Inputs are sanitised so that they terminate and write only into a scratch directory (counted); unbounded-recursion aborts on extreme nesting and two resource/encoder panics are known findings with regression inputs.",
         "DESIGN.md 4/C09"),
 "C15": ("round-trip property testing + byte-level mutation (proptest-driven): grammar-generated command text over every command kind and option, parse -> Display -> parse compared by a harness-side span-free canonical tree (floats by bit pattern; modulo fresh wildcard names and the code's own flatten_sequences); extracted terms re-parsed and re-evaluated; resolve_program output printed and re-run on a fresh engine (as upstream's _desugar trials do)",
         "Generated syntax trees / programs with round-trip oracles at three stages; only text the parser accepts is judged.",
         "The structural comparison is the harness's own serializer (never the Display impls under test); two printer/sanitiser disagreements are known findings.",
         "DESIGN.md 4/C15"),
}

PENDING_REASON = "check not built yet in this round (work in progress; see DESIGN.md section 8 for the build order)"

def main():
    props = [json.loads(l) for l in open(os.path.join(ROOT, "properties.jsonl"))]
    hooks_file = os.path.join(ROOT, "tools", "hooks.json")
    hooks = json.load(open(hooks_file)) if os.path.exists(hooks_file) else {"source_commits": []}
    checks = []
    na = []
    for p in props:
        pid = p["id"]
        if pid in CLAIMED:
            tech, text, note, ref = CLAIMED[pid]
            checks.append({
                "property_id": pid,
                "quick_cmd": f"./check {pid} --tier quick",
                "thorough_cmd": f"./check {pid} --tier thorough",
                "evidence_file": f"/verif/evidence/{pid}.json",
                "replay_cmd_template": f"./check {pid} --replay {{path}}",
                "engine": "vcheck",
                "level_claimed": {"category": "exploration", "text": text, "design_ref": ref},
                "level_note": note,
                "technique": tech,
            })
        else:
            na.append({"property_id": pid, "reason": PENDING_REASON})
    m = {
        "version": 1,
        "setup_cmd": "cd /verif/harness && CARGO_NET_OFFLINE=true cargo build --release",
        "hooks": {
            "guard": "cargo feature `verif-hooks`",
            "enable": "the harness crate (/verif/harness/Cargo.toml) path-depends on /repo's crates; hook code, where present, is compiled only with the cargo feature verif-hooks which only the harness enables",
            "baseline_off_cmd": "cd /repo && cargo nextest run --workspace --no-fail-fast --test-threads 8 --offline || cargo test --workspace --no-fail-fast --offline",
            "source_commits": hooks.get("source_commits", []),
            "add_only": True,
        },
        "engines": [
            {"name": "vcheck", "path": "/verif/harness", "serves_properties": sorted(CLAIMED.keys()),
             "kind_free_text": "Rust harness: proptest-driven choice-stream generators, reference interpreter, canonical dump, differential/metamorphic/model-based oracles, shrinking to replay files"},
        ],
        "checks": checks,
        "not_applicable": na,
        "notes": "All checks: ./check <ID> [--tier quick|thorough] [--replay FILE]; VERIF_SEED selects the proptest seed. exit 0 held, 1 VIOLATION, 2 inconclusive. Known findings: /verif/known-findings.jsonl.",
    }
    json.dump(m, open(os.path.join(ROOT, "MANIFEST.json"), "w"), indent=1)
    print(f"claimed {len(checks)}, not_applicable {len(na)}")

if __name__ == "__main__":
    main()
