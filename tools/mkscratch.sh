#!/bin/bash
# usage: mkscratch.sh <name>  -> /tmp/<name>/repo (git worktree of /repo HEAD) and /tmp/<name>/harness (copy of the harness
# whose path dependencies point at that worktree). Remove with: rmscratch.sh <name>
set -e
N="$1"; D="/tmp/$N"
mkdir -p "$D"
git -C /repo worktree add --detach "$D/repo" HEAD >/dev/null 2>&1
mkdir -p "$D/harness"
rsync -a --exclude target /verif/harness/ "$D/harness/"
sed -i "s#\"/repo#\"$D/repo#g" "$D/harness/Cargo.toml"
echo "$D"
