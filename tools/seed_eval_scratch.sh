#!/bin/bash
# usage: seed_eval_scratch.sh <seeded-dir-name> <PROP> [<PROP>..]
# Evaluates the committed checks against a seeded change WITHOUT touching /repo: a scratch worktree of /repo HEAD
# gets the patch, a copy of the harness is pointed at it, built, and run (quick tier) with a scratch VERIF_ROOT
# (known findings + regressions copied). Appends "== scratch <dir> <PROP>: exit=.." lines to seeded/<dir>/eval.log
# and removes the scratch copy.
D="$1"; shift
N="ev-$D"; S="/tmp/$N"
/verif/tools/rmscratch.sh "$N" >/dev/null 2>&1
/verif/tools/mkscratch.sh "$N" >/dev/null || { echo "mkscratch failed"; exit 3; }
git -C "$S/repo" apply "/verif/seeded/$D/patch.diff" || { echo "cannot apply"; /verif/tools/rmscratch.sh "$N"; exit 3; }
mkdir -p "$S/root"
cp /verif/known-findings.jsonl "$S/root/"
cp -r /verif/regressions "$S/root/"
cp /verif/properties.jsonl "$S/root/" 2>/dev/null
# registry dependencies are shared between the evaluations of one lane (seed number mod 3); removed by the caller at the end
num=$(echo "$D" | sed 's/[^0-9]//g'); TGT="/tmp/ev-target-$((10#$num % 3))"
( cd "$S/harness" && CARGO_TARGET_DIR="$TGT" CARGO_NET_OFFLINE=true cargo build --release --quiet 2> "$S/build.log" && cp "$TGT/release/vcheck" "$S/vcheck" ) || { echo "== scratch $D: harness build failed"; tail -5 "$S/build.log"; /verif/tools/rmscratch.sh "$N"; exit 3; }
for p in "$@"; do
  s=$(date +%s)
  out=$(cd "$S/harness" && VERIF_ROOT="$S/root" VERIF_NO_EVIDENCE=1 VERIF_THREADS=${VERIF_THREADS:-6} "$S/vcheck" $p --tier ${TIER:-quick} 2>&1); rc=$?
  e=$(date +%s)
  line="== scratch $D $p: exit=$rc in $((e-s))s :: $(echo "$out" | grep -m1 -A1 '^VIOLATION' | tr '\n' ' ' | sed "s#$S/root#/verif#g" | cut -c1-240)"
  echo "$line"; echo "$line" >> "/verif/seeded/$D/eval.log"
  [ $rc -eq 2 ] && echo "$out" | tail -3
done
/verif/tools/rmscratch.sh "$N"
