#!/bin/bash
# usage: seed_eval.sh <scratch> <dir> <PROP> [<PROP>..]  : confirm the demo both ways, then run my checks against the patch on /repo
S="$1"; D="$2"; shift 2
cd /verif
SKIP_SUITE=1 NOCOPY=${NOCOPY:-0} tools/verify_seed.sh "$S" "$D" > /tmp/seed_eval_$D.log 2>&1
grep -E "^==|test result|PATCH DOES NOT" /tmp/seed_eval_$D.log > seeded/$D/eval.log
tools/runmutant.sh /verif/seeded/$D/patch.diff "$@" 2>&1 | grep "^==" >> seeded/$D/eval.log
cat seeded/$D/eval.log
