#!/bin/bash
N="$1"; D="/tmp/$N"
git -C /repo worktree remove --force "$D/repo" 2>/dev/null || true
rm -rf "$D"
git -C /repo worktree prune
