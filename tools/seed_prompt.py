#!/usr/bin/env python3
"""print the prompt for a seeding sub-agent: seed_prompt.py <ID> <scratch-name>"""
import json, sys
pid, name = sys.argv[1], sys.argv[2]
p = next(json.loads(l) for l in open('/verif/properties.jsonl') if json.loads(l)['id'] == pid)
print(f"""You are a senior Rust engineer doing mutation seeding for a verification study of the egglog repository (egraphs-good/egglog: a Datalog + equality-saturation language and engine). You get ONE semantic property of the system and a private git worktree of the repository at `/tmp/{name}/repo` (work only there; never touch /repo or /verif or any other directory; no network is available; build with `cargo build --offline`, test with `cargo test --offline ...`; the toolchain is pinned by the repo).

THE PROPERTY ({p['id']}): "{p['title']}"
Statement: {p['statement']}
Quantifier: {p['quantifier']['text']}
Why the existing tests cannot settle it: {p['why_tests_cant']}
Code that is meant to make it hold (starting points, not a limit): {', '.join(p['anchors']['files'])}; mechanisms: {'; '.join(m['name'] + ' @ ' + m.get('where','') for m in p['anchors']['mechanism'])}

YOUR TASK: produce ONE realistic change to the repository's source code (the kind of slip a competent maintainer could make in a refactor or optimisation: an off-by-one, a dropped condition, a wrong comparison, a missing re-canonicalisation, a flag not propagated on one path, a cache not invalidated, two sites that each look fine alone but disagree) that
 1. BREAKS the property above, and
 2. still COMPILES (no new warnings that the repo treats as errors are necessary to check) and still PASSES the existing test suite — at minimum `cargo test --offline --workspace --lib` plus the integration tests most related to the code you touched (e.g. `cargo test --offline --test files -- <a relevant subset>`, `--test integration_test`, the touched crate's own tests); say exactly which test commands you ran and their results, and
 3. needs something SPECIFIC to manifest: a particular multi-step sequence of operations, an unusual input, a particular configuration (thread count / environment cut-offs), a fault at a particular point, or two cooperating sites — NOT something that ordinary use would expose at once (if half the test-suite fails with your change it is far too blunt; prefer changes confined to a rarely taken branch or a specific shape of data).
Then write a DEMONSTRATION: a small self-contained Rust integration test file (e.g. `tests/seeded_demo.rs` in the worktree, using only the repo's public API and dev-dependencies already present) or, if more natural, a small `.egg` program plus the exact `cargo run --offline -- <file>` command and the expected vs. actual output — that FAILS with your change and PASSES without it. Verify both directions yourself (stash/unstash the change).

Be concrete and minimal: the change should be a few lines. Do not add comments that give the change away. Do not modify tests or snapshots. Do not break the build of other crates.

DELIVERABLES (all under `/tmp/{name}/out/`, create the directory):
 - `patch.diff` — `git diff` of ONLY the source change (not the demonstration);
 - the demonstration file(s) (copy of the test file / egg file) and `demo.md` saying how to run it and what it shows with and without the patch;
 - `meta.json` with keys: "property" ("{p['id']}"), "files_touched", "what_it_breaks" (2-3 sentences), "needs_to_manifest" (what specific sequence/input/configuration is required), "tests_run" (list of commands with pass/fail counts), "why_existing_tests_pass".
Leave the worktree with the patch and demonstration applied (uncommitted). In your final message summarise the change, how it manifests, and the verification you did.""")
