#!/bin/bash
# usage: mkmutant.sh <name> <file> <python-expr-old> <python-expr-new>  (exact string replace, first occurrence)
# writes /verif/mutants/<name>.diff and restores /repo
set -e
name="$1"; file="$2"; old="$3"; new="$4"
cd /repo
python3 - "$file" "$old" "$new" <<'PY'
import sys
p,old,new=sys.argv[1:4]
s=open(p).read()
if old not in s:
    print("OLD STRING NOT FOUND", file=sys.stderr); sys.exit(1)
s=s.replace(old,new,1)
open(p,'w').write(s)
PY
git diff > /verif/mutants/$name.diff
git checkout -- .
echo "wrote /verif/mutants/$name.diff ($(wc -l < /verif/mutants/$name.diff) lines)"
