#!/bin/bash
# usage: verify_seed.sh <scratch-name> <ID-dir-name>   e.g. verify_seed.sh s01 C01-a
# Confirms an agent-written seeded change in the shared verification worktree /tmp/vseed/repo:
#  1. patch applies and builds, 2. demonstration FAILS with the patch, 3. existing suite (minus 5 very slow trials) passes with it,
#  4. demonstration PASSES without it. Results are appended to /verif/seeded/<dir>/confirm.log
set -u
S="/tmp/$1/out"; D="/verif/seeded/$2"; W=/tmp/vseed/repo
mkdir -p "$D"; [ "${NOCOPY:-0}" = "1" ] || cp -r "$S"/* "$D"/ 2>/dev/null
L="$D/confirm.log"; : > "$L"
cd "$W" && git checkout -q -- . && git clean -fdq tests src 2>/dev/null
git checkout -q --detach $(git -C /repo rev-parse HEAD)
if ! git apply "$D/patch.diff"; then echo "PATCH DOES NOT APPLY" | tee -a "$L"; exit 1; fi
# demonstration: a tests/*.rs file if present
DEMO=$(ls "$D"/*.rs 2>/dev/null | head -1)
# demos of sub-crates (cargo test -p egglog-xxx --test seeded_demo) live in that crate's tests/ directory
PKG=$(grep -oh -- "-p egglog-[a-z-]*" "$D"/demo.md "$D"/meta.json 2>/dev/null | head -1 | awk '{print $2}')
TDIR=tests; PFLAG=""
case "$PKG" in
  egglog-core-relations) TDIR=core-relations/tests; PFLAG="-p egglog-core-relations";;
  egglog-union-find) TDIR=union-find/tests; PFLAG="-p egglog-union-find";;
  egglog-concurrency) TDIR=concurrency/tests; PFLAG="-p egglog-concurrency";;
  egglog-bridge) TDIR=egglog-bridge/tests; PFLAG="-p egglog-bridge";;
esac
mkdir -p $TDIR
if [ -n "$DEMO" ]; then cp "$DEMO" $TDIR/seeded_demo.rs; fi
echo "== with patch: demo" | tee -a "$L"
if [ -n "$DEMO" ]; then cargo test --offline $PFLAG --test seeded_demo 2>&1 | grep -E "^test |test result|error" | tail -15 | tee -a "$L"; fi
if [ "${SKIP_SUITE:-0}" != "1" ]; then
  echo "== with patch: suite" | tee -a "$L"
  rm -f $TDIR/seeded_demo.rs
  cargo nextest run --workspace --no-fail-fast --test-threads ${TT:-12} --offline -E 'not (test(/eqsolve.*proof_testing/) | test(/stresstest_large_expr/))' 2>&1 | grep -E "Summary|FAIL|TIMEOUT" | sort | uniq | tail -12 | tee -a "$L"
  if [ -n "$DEMO" ]; then cp "$DEMO" $TDIR/seeded_demo.rs; fi
fi
git checkout -q -- . 
echo "== without patch: demo" | tee -a "$L"
if [ -n "$DEMO" ]; then cargo test --offline $PFLAG --test seeded_demo 2>&1 | grep -E "^test |test result|error" | tail -15 | tee -a "$L"; fi
rm -f $TDIR/seeded_demo.rs
git checkout -q -- . 
