#!/bin/bash
# usage: runmutant.sh <diff> <PROP> [<PROP>...]   applies the diff to /repo, runs ./check PROP (quick), reverts.
d="$1"; shift
cd /repo && git apply "$d" || { echo "cannot apply $d"; exit 3; }
for p in "$@"; do
  s=$(date +%s)
  out=$(cd /verif && VERIF_NO_EVIDENCE=1 ./check $p --tier ${TIER:-quick} 2>&1); rc=$?
  e=$(date +%s)
  echo "== $(basename $d) $p: exit=$rc in $((e-s))s :: $(echo "$out" | grep -m1 -A1 '^VIOLATION' | tr '\n' ' ' | cut -c1-220)"
  [ $rc -eq 2 ] && echo "$out" | tail -5
done
cd /repo && git checkout -- . 
